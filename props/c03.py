"""C03 — client and backend always agree on request boundaries (no smuggling)."""
import os, re
import vlib
from vlib import Case
import props.hdr_facts as F

ID = "C03"
COQ_DIRS = ["Common", "C13", "C03"]
COQ_TARGETS = ["C03/Props.vo", "C03/Run.vo"]
PROPS_MODULES = ["C03.Props"]
RUN_MODULE = "C03.Run"
RUN_FN = "run_case"
HARNESS_BIN = "c03"
HARNESS_BINS = ["c03", "c03bb", "c03h2bb"]
SHRINK_KEEP = ("h1", "h2", "guard")
RULE = ("cases: (h2) HTTP/2 header lists = the four pseudo-headers mutated (missing, duplicated, after a regular field, "
        "unknown, upper-case, empty, every :path form, bad :scheme/:method bytes) + regular fields from pools with one "
        "forbidden byte class at a time in names and values, connection-specific names, te variants, content-length "
        "syntax/duplicates, host vs :authority, cookies, with and without END_STREAM, through real pkawa::handle_header + "
        "kawa H1 serialiser, re-read by the strict reader; (h1) raw HTTP/1.1 byte strings = 1-3 pipelined valid requests "
        "(no body / Content-Length / chunked with trailers) mutated by a smuggling grammar (CL/TE conflict, duplicate CL, "
        "'Transfer-Encoding : chunked', xchunked, bare LF, NUL, obs-fold, oversized/extended chunk sizes, signed CL, "
        "missing/duplicate Host, empty field name, missing framing) at several segmentations, through real kawa parse + "
        "HttpContext + serialiser, message after message as mux/h1.rs does. Non-trivial and distinct: an h2 list that is "
        "accepted with >=2 regular fields, or an h1 input of >=2 requests / a mutated request; distinct by op text.")
ASSUMPTIONS = [
    "HPACK decoding is loona-hpack's: the model's input is the decoded header list",
    "kawa's H1 parser is an oracle for the H1 frontend: h1_forwarded_is_what_was_read is conditional on its output being well-formed; that it only emits such output or rejects is checked differentially (strict reader on what it wrote); the findings it produced are fixed in sozu's own callback layer (h1_guard)",
    "the strict reader in the driver (Rust) is tied to the Coq strict_h1 by the correspondence on every h1/h2 case",
    "Content-Length vs DATA (h2.rs handle_data_frame / trailers path) is tied by a source translator and by the HTTP/2 black-box tier: scripted TLS h2 streams (short, long, early END_STREAM, Content-Length with END_STREAM, trailers) whose client outcome is the one data_agree predicts",
]
TRUSTED = ["translator props/c03.py:translate compares is_tchar, the forbidden value/pseudo-value byte classes, the connection-specific names, the te rule, the content-length digit rule and the three Content-Length/DATA comparisons with /repo"]


TCHAR = set(b"!#$%&'*+-.^_`|~") | set(range(48, 58)) | set(range(65, 91)) | set(range(97, 123))
DIGITS = set(range(48, 58))
BAD_VALUE = set(range(0, 9)) | set(range(10, 32)) | {127}

TRANSLATE_FALLBACK = ("a fact is soft only when the function / comparison holding it cannot be FOUND (renamed, moved); a function that is "
                      "found and holds something else, or something not understood, fails the check. The soft ones all decide which header "
                      "lists / byte strings are accepted and what is written, which the in-process correspondence (h2, guard, h1 ops: one "
                      "forbidden byte class at a time in names, values and pseudo-values, connection-specific names, te, Content-Length "
                      "syntax and repetitions, unframed requests) and the black-box tier (Content-Length / DATA schedules against "
                      "data_agree) compare with the model on every check. Tested: for each soft fact a breaking change hidden behind a "
                      "rename (name / pseudo-value / value byte classes, the te rule and its call, a repeated or conflicting "
                      "content-length, Transfer-Encoding twice, the unframed-request rule as a match, the three ledger comparisons with "
                      "renamed operands, a connection-specific name dropped) exits 1 through the correspondence or the oracle")


def _fact(fails, what, assumed, fn, hard=False):
    """fn() -> None | text of a difference.  SOFT (`unreadable:`) only when the construct cannot be found at all
    (the function is gone / renamed, no comparison of the two quantities exists); a function that is found but whose
    content is not the modelled one, or not understood, is a HARD failure (when in doubt, hard)."""
    try:
        d = fn()
        if d:
            fails.append("%s: %s (the model assumes %s)" % (what, d, assumed))
    except F.Unreadable as ex:
        if not hard and (getattr(ex, "absent", False) or re.match(r"fn \w+ not found", str(ex))):
            fails.append("unreadable: %s: %s; the model assumes %s" % (what, ex, assumed))
        else:
            fails.append("%s: not the modelled construct: %s (the model assumes %s)" % (what, ex, assumed))
    except Exception as ex:
        fails.append("%s: not the modelled construct: %r (the model assumes %s)" % (what, ex, assumed))


def _absent(msg):
    ex = F.Unreadable(msg)
    ex.absent = True
    return ex


def _pred_fn(src, name, env=None):
    """set of bytes for which the one-argument predicate `fn name(x: u8) -> bool` is true"""
    m = re.search(r"\bfn\s+%s\s*\(\s*(\w+)\s*:" % re.escape(name), src)
    if not m:
        raise F.Unreadable("fn %s not found" % name)
    return F.eval_pred(F.fn_body(src, name), m.group(1), env)


def _auto_env(src):
    """name -> set of bytes, for every `fn name(x: u8) -> bool` of src that can be evaluated (a private byte predicate may be
    renamed freely: the readers below look at what it accepts, not at what it is called)"""
    env = {}
    for m in re.finditer(r"\bfn\s+(\w+)\s*\(\s*\w+\s*:\s*u8\s*\)\s*->\s*bool", src):
        try:
            env[m.group(1)] = _pred_fn(src, m.group(1))
        except Exception:
            pass
    return env


def _slice_pred(src, name, env=None):
    """for `fn name(v: &[u8]) -> bool { v.iter().any|all(|b| EXPR) }`: (method, set of bytes making EXPR true)"""
    body = F.fn_body(src, name)
    meth, var, expr = F.closure_pred(body)
    neg = re.match(r"\s*!", body) is not None
    return meth, neg, F.eval_pred(expr, var, env)


def translate():
    fails = []
    rd = lambda rel: F.strip_comments(open(os.path.join(vlib.REPO, rel)).read())
    pk, h2, ed = rd("lib/src/protocol/mux/pkawa.rs"), rd("lib/src/protocol/mux/h2.rs"), rd("lib/src/protocol/kawa_h1/editor.rs")
    pk = F.subst_consts(pk, F.consts(pk))
    ed = F.subst_consts(ed, F.consts(ed))

    def tchar():
        got = _pred_fn(pk, "is_tchar")
        return None if got == TCHAR else "the token table differs on bytes %r" % sorted(got ^ TCHAR)
    _fact(fails, "pkawa.rs is_tchar", "RFC 9110 tchar", tchar)

    def name_bytes():
        meth, neg, got = _slice_pred(pk, "has_invalid_name_byte", _auto_env(pk))
        bad = got if (meth == "any") != neg else set(range(256)) - got
        want = set(range(256)) - (TCHAR - set(range(65, 91)))
        return None if bad == want else "invalid name bytes differ on %r" % sorted(bad ^ want)
    _fact(fails, "pkawa.rs has_invalid_name_byte", "upper-case or non-token bytes", name_bytes)

    def pseudo_bytes():
        meth, neg, got = _slice_pred(pk, "has_invalid_pseudo_value_byte")
        bad = got if (meth == "any") != neg else set(range(256)) - got
        want = set(range(0, 33)) | {127}
        return None if bad == want else "invalid pseudo-header value bytes differ on %r" % sorted(bad ^ want)
    _fact(fails, "pkawa.rs has_invalid_pseudo_value_byte", "0x00..=0x20 | 0x7F", pseudo_bytes)

    def value_bytes():
        arms = F.match_arm_sets(F.fn_body(pk, "classify_invalid_value_byte"))
        bad = set()
        for st, text in arms:
            if st is None:
                if text.strip() not in ("{}", "()", "{ }"):
                    raise F.Unreadable("the wildcard arm does something")
            else:
                bad |= st
        return None if bad == BAD_VALUE else "forbidden value bytes differ on %r" % sorted(bad ^ BAD_VALUE)
    _fact(fails, "pkawa.rs classify_invalid_value_byte", "0x00..=0x08 | 0x0A..=0x1F | 0x7F", value_bytes)

    def classify():
        body = F.fn_body(pk, "classify_invalid_h2_header")
        for callee in ("has_invalid_name_byte", "is_connection_specific_header", "is_invalid_te_value", "classify_invalid_value_byte"):
            if not re.search(r"\b%s\s*\(" % callee, body):
                if not re.search(r"\bfn\s+%s\b" % callee, pk):
                    raise _absent("%s is not found (renamed?)" % callee)
                raise F.Unreadable("no call to %s" % callee)
        if not (re.search(r"\[\s*0\s*\]\s*!=\s*b':'", body) or re.search(r"!\s*\w+\.starts_with\(\s*b\":\"\s*\)", body)
                or re.search(r"first\(\)\s*!=\s*Some\(\s*&b':'\s*\)", body)):
            raise F.Unreadable("the ':' exemption of the name check is not recognised")
        if b"te" not in [x for _, x in F.byte_strings(body)]:
            raise F.Unreadable("the te rule does not name b\"te\"")
    _fact(fails, "pkawa.rs classify_invalid_h2_header", "name bytes (not for ':' names), connection-specific, te, value bytes", classify)

    def te_value():
        body = F.fn_body(pk, "is_invalid_te_value")
        if b"trailers" not in [x for _, x in F.byte_strings(body)] or "!" not in body:
            raise F.Unreadable("not `!compare(value, b\"trailers\")`")
    _fact(fails, "pkawa.rs is_invalid_te_value", "anything but `trailers` (case-insensitive)", te_value)

    def cl_digits():
        body = F.fn_body(pk, "write_regular_header")
        if b"content-length" not in [x.lower() for _, x in F.byte_strings(body)]:
            raise F.Unreadable("content-length is not named")
        meth, var, expr = F.closure_pred(body, ("all",))
        got = F.eval_pred(expr, var)
        if got != DIGITS:
            return "content-length bytes accepted: %r" % sorted(got)
        if not re.search(r"\.is_empty\(\)", body):
            raise F.Unreadable("the empty value test is not recognised")
        m = re.search(r"let\s+(\w+)\s*=\s*matches!\(\s*kawa\.body_size\s*,\s*BodySize::Length\(\s*_\s*\)\s*\)", body)
        if not m or not re.search(r"if\s+%s\s*\{[^{}]*return\s+Ok\(\(\)\)" % m.group(1), body):
            raise F.Unreadable("`a repeated equal content-length is not pushed again` is not recognised")
    _fact(fails, "pkawa.rs write_regular_header", "content-length = 1*DIGIT, a repeated equal value forwarded once", cl_digits)

    def cl_conflict():
        body = F.fn_body(pk, "set_content_length")
        sig = re.search(r"\bfn\s+set_content_length\s*\(\s*\w+\s*:[^,]*,\s*(\w+)\s*:", pk)
        if not sig:
            raise F.Unreadable("the parameters are not recognised")
        par = sig.group(1)
        body = re.sub(r"debug_assert(?:_eq|_ne)?!\s*\(", "DBG(", body)
        # drop the debug assertions (balanced), then every comparison of a bound length with the new one
        while "DBG(" in body:
            k = body.index("DBG(")
            body = body[:k] + body[F.matching(body, k + 3, "(", ")") + 1:]
        ops = [m.group(2) for m in re.finditer(r"\b(\w+)\s*(==|!=|<=|>=|<|>)\s*(\w+)\b", body) if par in (m.group(1), m.group(3))]
        if not ops:
            raise F.Unreadable("no comparison with the new length")
        if ops != ["!="] and ops != ["=="]:
            return "the new length is compared with %r" % ops
        if ops == ["!="] and not re.search(r"if\s+\w+\s*!=\s*\w+\s*=>\s*false|!=\s*\w+\s*\{\s*return\s+false", body):
            raise F.Unreadable("what a different length leads to is not recognised")
        if ops == ["=="]:
            raise F.Unreadable("what an equal length leads to is not recognised")
    _fact(fails, "pkawa.rs set_content_length", "a second, different length is refused", cl_conflict)

    def pseudo_rules():
        body = F.fn_body(pk, "handle_header")
        lits = [x for _, x in F.byte_strings(body)]
        for need in (b"http", b"https", b"*", b"OPTIONS", b":method", b":scheme", b":path", b":authority"):
            if need not in lits:
                raise F.Unreadable("literal %r is not in handle_header" % need)
        if "b'#'" not in body or "b'/'" not in body:
            raise F.Unreadable("the '#' / leading '/' tests are not recognised")
        mt = re.search(r"\.all\(\s*\|\s*&?\s*(\w+)\s*\|\s*(\w+)\(\s*\*?\1\s*\)\s*\)", body)
        if not mt:
            raise F.Unreadable("the :method token test is not recognised")
        if _pred_fn(pk, mt.group(2)) != TCHAR:
            return "the :method bytes accepted differ from tchar"
        if not re.search(r"!\s*\(\s*\w+\s*\|\|\s*\(\s*\w+\s*&&\s*\w+\s*\)\s*\)", body):
            raise F.Unreadable("the :path form test `!(slash || (asterisk && options))` is not recognised")
        if not re.search(r"(\w+\s*>\s*0|0\s*<\s*\w+|\w+\s*!=\s*0)\s*&&\s*!\s*\w+", body):
            raise F.Unreadable("the END_STREAM with non-zero Content-Length test is not recognised")
    # handle_header is the function the harness hook names: it cannot be renamed without the build failing, so nothing here is soft
    _fact(fails, "pkawa.rs handle_header", ":scheme http|https, :path without '#', origin-form or `*` for OPTIONS, :method token, END_STREAM => length 0", pseudo_rules, hard=True)

    # ---- sozu's own HTTP/1 acceptance (editor.rs)
    def guard():
        body = F.fn_body(ed, "h1_framing_violation")
        lits = [x.lower() for _, x in F.byte_strings(body)]
        for need in (b"transfer-encoding", b"chunked", b"content-length"):
            if need not in lits:
                raise F.Unreadable("literal %r is not in h1_framing_violation" % need)
        m = re.search(r"\.all\(\s*\|\s*&?\s*(\w+)\s*\|\s*(\w+)\(\s*\*?\1\s*\)\s*\)", body)
        if not m:
            raise F.Unreadable("the field-name test is not recognised")
        recv = re.search(r"(\w+)\s*\.iter\(\)\s*$", body[:m.start()])
        if not recv or not re.search(r"\b%s\s*\.is_empty\(\)" % recv.group(1), body):
            return "an empty field name is no longer refused"
        tok = _pred_fn(ed, m.group(2))
        if tok != TCHAR:
            return "field-name bytes accepted differ from tchar on %r" % sorted(tok ^ TCHAR)
        md = re.search(r"(\w+)\s*\.iter\(\)\s*\.all\(\s*(?:u8::is_ascii_digit|\|\s*&?\s*(\w+)\s*\|\s*\*?\2\.is_ascii_digit\(\))\s*\)", body)
        if not md:
            raise F.Unreadable("the Content-Length digit test is not recognised")
        if not re.search(r"\b%s\s*\.is_empty\(\)" % md.group(1), body):
            return "an empty Content-Length is no longer refused"
        if not re.search(r"if\s+(\w+)\s*\|\|\s*!", body) or not re.search(r"\w+\s*=\s*true\s*;", body):
            raise F.Unreadable("the `Transfer-Encoding seen twice or not chunked` test is not recognised")
        req = F.fn_body(ed, "on_request_headers")
        if not re.search(r"if\s+let\s+Some\(\s*(\w+)\s*\)\s*=\s*h1_framing_violation\([^)]*\)\s*\{\s*request\.parsing_phase\.error\(\s*\1\.into\(\)\s*\)\s*;\s*return\s*;", req):
            raise F.Unreadable("`a violation becomes a parse error` is not recognised")
        if not re.search(r"\.all\(\s*\|\s*&?\s*(\w+)\s*\|\s*%s\(\s*\*?\1\s*\)\s*\)" % m.group(2), req):
            raise F.Unreadable("the method token test is not recognised")
    _fact(fails, "editor.rs h1_framing_violation", "token names and method, one exact `chunked`, Content-Length 1*DIGIT, violation => 400", guard)

    def no_body():
        req = F.fn_body(ed, "on_request_headers")
        ma = re.search(r"\{\s*request\.parsing_phase\s*=\s*kawa::ParsingPhase::Terminated\s*;", req)
        if not ma:
            raise _absent("the termination of an unframed request is not found")
        ifs = [x.start() for x in re.finditer(r"\bif\s", req[:ma.start()])]
        if not ifs:
            raise F.Unreadable("no condition guards the termination")
        cond = req[ifs[-1] + 2:ma.start()]
        m = re.match(r"(.*)", cond, re.S)
        conj = [re.sub(r"\s+", "", c) for c in cond.split("&&")]
        want = {"request.body_size==kawa::BodySize::Empty", "request.parsing_phase==kawa::ParsingPhase::Body"}
        alt = {"kawa::BodySize::Empty==request.body_size": "request.body_size==kawa::BodySize::Empty",
               "kawa::ParsingPhase::Body==request.parsing_phase": "request.parsing_phase==kawa::ParsingPhase::Body"}
        got = {alt.get(c, c) for c in conj}
        if got == want:
            return None
        if want <= got:
            return "the rule has extra conditions %r" % sorted(got - want)
        raise F.Unreadable("condition %r" % m.group(1).strip()[:80])
    _fact(fails, "editor.rs on_request_headers", "a request with BodySize::Empty in Body phase is Terminated, unconditionally", no_body)

    # ---- Content-Length vs DATA (h2.rs)
    def ledger():
        ops = []
        for m in re.finditer(r"(\*?[\w.]*(?:received|expected|declared)\w*)\s*(>=|<=|!=|==|>|<)\s*(\*?[\w.]*(?:received|expected|declared)\w*)", h2):
            a_, op, b_ = m.group(1), m.group(2), m.group(3)
            if "received" in a_ and ("expected" in b_ or "declared" in b_):
                ops.append(op)
            elif "received" in b_ and ("expected" in a_ or "declared" in a_):
                ops.append({">": "<", "<": ">", ">=": "<=", "<=": ">="}.get(op, op))
        if not ops:
            raise _absent("no comparison between a `received` total and an `expected` / `declared` length")
        if sorted(ops) != sorted([">", "!=", "!="]):
            return "DATA total vs declared length is compared with %r" % ops
    # ---- trailers: any ':'-prefixed name refuses the block (pkawa.rs handle_trailer; hook-named function: hard)
    def trailer_colon():
        body = F.fn_body(pk, "handle_trailer")
        if not (re.search(r"\b(\w+)\.starts_with\(\s*b\":\"\s*\)", body) or re.search(r"\.first\(\)\s*==\s*Some\(\s*&b':'\s*\)", body)
                or re.search(r"\[\s*0\s*\]\s*==\s*b':'", body) or re.search(r"matches!\(\s*\w+\.first\(\)\s*,\s*Some\(\s*(?:&\s*)?b':'\s*\)\s*\)", body)):
            return "no test refuses every trailer name starting with ':'"
        if not re.search(r"\bclassify_invalid_h2_header\s*\(|\b%s\s*\(" % "reject_reason_for", body) and not re.search(r"if\s+let\s+Some\(\s*\w+\s*\)\s*=\s*\w+\(\s*&\w+\s*,\s*&\w+\s*\)", body):
            return "the trailer fields no longer go through the header validation"
    _fact(fails, "pkawa.rs handle_trailer", "a name starting with ':' (any) and a field the header validation refuses make the block invalid", trailer_colon, hard=True)

    # ---- mux/h1.rs: keep-alive decisions that depend on the request being finished
    h1 = rd("lib/src/protocol/mux/h1.rs")

    def lets(text):
        return {m.group(1): re.sub(r"\s+", "", m.group(2)) for m in re.finditer(r"\blet\s+(\w+)\s*=\s*([^;{}]+);", text)}

    def conjuncts(cond, defs):
        out = set()
        for c in cond.split("&&"):
            c = re.sub(r"\s+", "", c)
            neg = c.startswith("!")
            v = c[1:] if neg else c
            if v in defs:
                d = defs[v]
                # `!v` with v = `!e`  ==>  `e`;  a conjunction bound to a name is expanded
                if neg and d.startswith("!") and "&&" not in d and "||" not in d:
                    out.add(d[1:])
                    continue
                if not neg and "||" not in d:
                    out |= {x for x in d.split("&&")}
                    continue
            out.add(c)
        return out

    def _bool_guard(body, pos, cl):
        """the condition under which the statement at `pos` of `body` runs, as a boolean formula over the atoms `cl`
        names: let-bindings expanded, `if !g {A} else {B}` read as `if g {B} else {A}` (tools/rustmini.py)"""
        import rustmini as R
        try:
            gs = R.enclosing_guard(body, pos)
            text = " && ".join("(%s)" % g for g in gs) or "true"
            return R, R.parse_bool(text, cl, R.let_bindings(body))
        except R.Unrecognised as ex:
            raise F.Unreadable(str(ex))

    def _side_cl(t):
        t0 = "".join(t.split())
        import rustmini as R
        while t0.startswith("(") and R.match_brace(t0, 0, "(", ")") == len(t0) - 1:
            t0 = t0[1:-1]
        if t0 == "true":
            return True
        if "status_line" in t0 and re.search(r"\(100\.\.200\)\.contains\(&?\w+\)|\(100\.\.=199\)\.contains\(&?\w+\)", t0):
            return "interim"
        if re.search(r"keep_alive_backend$", t0):
            return "keep_alive_backend"
        if re.search(r"keep_alive_frontend$", t0):
            return "keep_alive_frontend"
        if re.search(r"\bfront\)*\.is_terminated\(\)$", t0):
            return "front_terminated"
        if re.search(r"\bfront\)*\.is_completed\(\)$", t0):
            return "front_completed"
        if re.search(r"\bback\)*\.is_terminated\(\)$", t0):
            return "back_terminated"
        return None

    def park():
        import rustmini as R0
        body, _ = R0.fn_body(R0.strip(open(os.path.join(vlib.REPO, "lib/src/protocol/mux/h1.rs")).read()), "end_stream")
        ps = [m.start() for m in re.finditer(r"=\s*BackendStatus::KeepAlive\s*;", body)]
        if len(ps) != 1:
            raise F.Unreadable("%d assignments of BackendStatus::KeepAlive" % len(ps))
        R, e = _bool_guard(body, ps[0], _side_cl)
        A = lambda n: ("atom", n)
        want = ("and", ("and", ("and", ("and", A("keep_alive_backend"), A("back_terminated")), ("not", A("interim"))), A("front_terminated")), A("front_completed"))
        if R.bool_equiv(e, want):
            return None
        missing = [n for n in ("keep_alive_backend", "back_terminated", "front_terminated", "front_completed") if not R.bool_implies(e, A(n))]
        if not R.bool_implies(e, ("not", A("interim"))):
            missing.append("not interim")
        if missing:
            return "the backend connection can be parked without %s (the request side, the response side and `no interim response pending` must all hold)" % ", ".join(missing)
        return "the parking rule has other conditions than the modelled ones (atoms %r)" % sorted(R.bool_atoms(e))
    _fact(fails, "h1.rs ConnectionH1::end_stream", "KeepAlive iff keep_alive_backend, response terminated, no interim in the buffer, request terminated and completely written", park, hard=True)

    def h2_end():
        # ConnectionH2::end_stream, client side: RST_STREAM unless the stream is closed in both directions / already reset
        cands = [x for x in re.finditer(r"let\s+(\w+)\s*=\s*([^;{}]*);", h2)
                 if "rst_sent.contains" in h2[x.end():x.end() + 400] and re.search(r"end_of_stream|is_terminated", x.group(2))]
        if len(cands) != 1:
            raise F.Unreadable("the `stream fully completed` test in front of the RST_STREAM of the H2 backend side is not found (%d candidates)" % len(cands))
        m = cands[0]
        got = {re.sub(r"\s+", "", c) for c in m.group(2).split("&&")}
        if got != {"stream.back_received_end_of_stream", "stream.front.is_terminated()"}:
            return "an HTTP/2 backend stream counts as closed on %r (the model: response ended AND request sent to its end)" % sorted(got)
        mi = re.search(r"if\s+([^{]*)\{", h2[m.end():m.end() + 400])
        cond = {re.sub(r"\s+", "", c) for c in mi.group(1).split("&&")} if mi else set()
        if "!" + m.group(1) not in cond or not any(c.startswith("!self.rst_sent.contains(") for c in cond) or len(cond) != 2:
            return "RST_STREAM toward the backend is queued on %r (the model: not fully completed and not reset before)" % sorted(cond)
    _fact(fails, "h2.rs ConnectionH2::end_stream (client side)", "RST_STREAM unless response ended and request terminated, or already reset", h2_end, hard=True)

    def front_reset():
        import rustmini as R0
        try:
            body, _ = R0.fn_body(R0.strip(open(os.path.join(vlib.REPO, "lib/src/protocol/mux/h1.rs")).read()), "writable")
        except R0.Unrecognised as ex:
            raise F.Unreadable(str(ex))
        mw = re.search(r"stream\.front\.clear\(\)\s*;", body)
        if not mw:
            raise F.Unreadable("the keep-alive reset of the frontend slot (stream.front.clear()) is not found in writable")
        binds = R0.let_bindings(body)

        def cl(t):
            c = _side_cl(t)
            if c is not None:
                return c
            t0 = "".join(t.split())
            if re.fullmatch(r"\w+", t0) and t0 in binds:
                return None          # a let-bound name stands for its definition
            # any other condition on the way to the reset is an opaque atom of its own
            return "other:" + t0
        R, e = _bool_guard(body, mw.start(), cl)
        if not R.bool_implies(e, ("atom", "front_terminated")):
            return "the slot can be reset for a next request while the request was not received to its end (front.is_terminated() is not implied by the guard)"
    _fact(fails, "h1.rs keep-alive reset (writable)", "the slot is only reset when the request was received to its end", front_reset, hard=True)

    _fact(fails, "h2.rs handle_data_frame / trailers", "reset when total > declared on any DATA, and when total != declared at END_STREAM (DATA or trailers)", ledger)
    return fails


# ---------------------------------------------------------------------------
def b(s):
    return s.encode("latin1") if isinstance(s, str) else s


BADBYTES = ["\x00", "\r", "\n", "\r\n", "\x01", "\x0b", "\x1f", "\x7f"]
OKBYTES = ["\t", " ", "\x80", "\xff", "~", "\""]
NAMES = ["accept", "x-a", "x-b", "user-agent", "content-type", "x^~", "a", "x-forwarded-for", "sozu-id", "priority"]
BADNAMES = ["Accept", "x a", "x:a", "x\r\na", "x\x7f", "x\x80", "x(a", "", "x\x00", "x,a", ":x", "x\"", "x/y"]
CONN = ["connection", "proxy-connection", "transfer-encoding", "upgrade", "keep-alive", "Connection", "Transfer-Encoding"]
VALUES = ["", "a", "text/html", "a, b", "1.2.3.4", "chunked", "close", "x y", "u=3, i"]
CL = ["0", "5", "05", "5 ", " 5", "+5", "", "5,5", "5, 5", "99999999999999999999999", "18446744073709551615", "18446744073709551616", "0x5", "5\t"]
PATHS = ["/", "/a/b?c=d", "*", "a", "", "/a b", "/a#b", "http://x/", "/\x7f", "/a\tb", "//x", "/ HTTP/1.1", "/%00"]
AUTHS = ["example.com", "example.com:8080", "[::1]:80", "a b", "EXAMPLE.com", "x"]
METHODS = ["GET", "POST", "OPTIONS", "HEAD", "get", "GE T", "G\x00T", "M-SEARCH", "", "GET\r\n"]
SCHEMES = ["https", "http", "ftp", "HTTP", "", "https "]


def h2_case(rng, cid):
    method, path, auth, scheme = "GET", "/", "example.com", "https"
    r = rng.random()
    if r < 0.15:
        method = rng.choice(METHODS)
    elif r < 0.35:
        path = rng.choice(PATHS)
        if path == "*" and rng.random() < 0.6:
            method = "OPTIONS"
    elif r < 0.45:
        auth = rng.choice(AUTHS)
    elif r < 0.52:
        scheme = rng.choice(SCHEMES)
    pseudo = [(":method", method), (":scheme", scheme), (":path", path), (":authority", auth)]
    rng.shuffle(pseudo)
    r = rng.random()
    if r < 0.06:
        pseudo.pop(rng.randrange(len(pseudo)))
    elif r < 0.12:
        pseudo.append(rng.choice(pseudo))
    elif r < 0.16:
        pseudo.append((rng.choice([":status", ":protocol", ":", ":x"]), "1"))
    elif r < 0.20:
        i = rng.randrange(len(pseudo))
        pseudo[i] = (pseudo[i][0].upper(), pseudo[i][1])
    regs = []
    for _ in range(rng.randint(0, 6)):
        r = rng.random()
        if r < 0.45:
            n, v = rng.choice(NAMES), rng.choice(VALUES)
        elif r < 0.55:
            n, v = rng.choice(BADNAMES), rng.choice(VALUES)
        elif r < 0.63:
            n, v = rng.choice(CONN), rng.choice(VALUES)
        elif r < 0.70:
            n, v = "te", rng.choice(["trailers", "Trailers", "gzip", "trailers, gzip", ""])
        elif r < 0.80:
            v = rng.choice(VALUES)
            i = rng.randint(0, len(v))
            v = v[:i] + rng.choice(BADBYTES + OKBYTES) + v[i:]
            n = rng.choice(NAMES)
        elif r < 0.88:
            n, v = "content-length", rng.choice(CL)
            if rng.random() < 0.3:
                # a second content-length, equal / smaller / larger / spelled differently (the ordered pairs are also in the corpus)
                regs.append((n, v))
                v = rng.choice(["0", "5", "05", "7", v, v])
        elif r < 0.94:
            n, v = "host", rng.choice(AUTHS + [auth, auth, auth + ":443", auth.split(":")[0]])
        else:
            n, v = "cookie", rng.choice(["a=b", "a=b; c=d", "a=b;;c", "", ";", "a=b\x7f", "x", "a = b ; c"])
        regs.append((n, v))
    if rng.random() < 0.08 and regs:
        # a pseudo-header after a regular field
        regs.insert(rng.randint(1, len(regs)), pseudo.pop())
    hs = pseudo + regs
    es = int(rng.random() < 0.6)
    op = ["h2", es]
    for (n, v) in hs:
        op += [b(n), b(v)]
    return Case(cid, [op], dict(kind="h2", regs=len(regs)))


H1_VERSIONS = ["HTTP/1.1"] * 10 + ["HTTP/1.0"] * 4 + ["HTTP/1.2", "http/1.1", "HTTP/0.9", "HTTP/2.0", "HTTP/1.10", "HTTP/1", ""]


def valid_request(rng):
    m = rng.choice(["GET", "POST", "PUT", "HEAD", "DELETE", "OPTIONS", "PATCH", "get", "M-SEARCH"])
    t = rng.choice(["/", "/a?b", "/x/y", "/admin"])
    host = rng.choice(["x", "example.com", "a.b:8080"])
    extra = rng.sample([("Accept", "*/*"), ("X-A", "1"), ("User-Agent", "u"), ("Cookie", "a=b; c=d")], rng.randint(0, 2))
    kind = rng.choice(["cl0", "cl", "chunked", "chunked-trailers", "unframed", "unframed"])
    hs = [("Host", host)] + extra
    body = b""
    if kind == "unframed":
        pass          # neither Content-Length nor Transfer-Encoding: no body (RFC 9112 6.3), whatever follows is the next request
    elif kind == "cl0":
        hs.append(("Content-Length", "0"))
    elif kind == "cl":
        data = rng.choice(["a", "hello", "GET / HTTP/1.1\r\n\r\n"])
        hs.append(("Content-Length", str(len(data))))
        body = b(data)
    else:
        hs.append(("Transfer-Encoding", "chunked"))
        for _ in range(rng.randint(0, 2)):
            d = rng.choice(["abc", "x", "0123456789abcdef0"])
            body += b("%x\r\n%s\r\n" % (len(d), d))
        body += b"0\r\n"
        if kind == "chunked-trailers":
            body += b"X-T: 1\r\n"
        body += b"\r\n"
    rng.shuffle(hs)
    return m, t, hs, body


def render(m, t, hs, body, eol=b"\r\n", version="HTTP/1.1"):
    out = b(m) + b" " + b(t) + b" " + b(version) + eol
    for (n, v) in hs:
        out += b(n) + b": " + b(v) + eol
    return out + eol + body


def mutate(rng, m, t, hs, body, version="HTTP/1.1"):
    """one smuggling-grammar mutation; returns raw bytes"""
    k = rng.choice(["clte", "dupcl", "dupcl-diff", "te-space", "xchunked", "te-list", "barelf", "nul", "obsfold", "bigchunk",
                    "chunkext", "signcl", "spacecl", "hexcl", "emptyname", "nocl", "nohost", "duphost", "tabline", "http10",
                    "absform", "te-dup", "cl-comma", "lf-in-value", "crchunk", "te-case", "none", "nocl", "nocl"])
    hs = list(hs)
    names = [n.lower() for n, _ in hs]
    eol = b"\r\n"
    if k == "clte":
        hs.append(("Content-Length", "3") if "transfer-encoding" in names else ("Transfer-Encoding", "chunked"))
        if "transfer-encoding" not in names:
            body = b"0\r\n\r\n" if rng.random() < 0.5 else body
    elif k == "dupcl":
        hs += [h for h in hs if h[0].lower() == "content-length"]
    elif k == "dupcl-diff":
        hs.append(("Content-Length", "7"))
    elif k == "te-space":
        hs = [("Transfer-Encoding ", v) if n.lower() == "transfer-encoding" else (n, v) for n, v in hs]
    elif k == "xchunked":
        hs = [(n, "xchunked") if n.lower() == "transfer-encoding" else (n, v) for n, v in hs]
    elif k == "te-list":
        hs = [(n, rng.choice(["gzip, chunked", "chunked, identity", "identity"])) if n.lower() == "transfer-encoding" else (n, v) for n, v in hs]
    elif k == "te-dup":
        hs += [h for h in hs if h[0].lower() == "transfer-encoding"]
    elif k == "te-case":
        hs = [(n, "Chunked") if n.lower() == "transfer-encoding" else (n, v) for n, v in hs]
    elif k == "barelf":
        eol = b"\n"
    elif k == "nul":
        hs.insert(rng.randint(0, len(hs)), ("X-N", "a\x00b"))
    elif k == "lf-in-value":
        hs.insert(rng.randint(0, len(hs)), ("X-N", "a\nContent-Length: 9"))
    elif k == "obsfold":
        hs.insert(rng.randint(1, len(hs)), (" folded", "x"))
    elif k == "bigchunk":
        body = b"FFFFFFFFFFFFFFFFF\r\nabc\r\n0\r\n\r\n"
    elif k == "chunkext":
        body = b"3;x=y\r\nabc\r\n0\r\n\r\n"
    elif k == "crchunk":
        body = b"3\rabc\r\n0\r\n\r\n"
    elif k == "signcl":
        hs = [(n, "+" + v) if n.lower() == "content-length" else (n, v) for n, v in hs]
    elif k == "spacecl":
        hs = [(n, v + " ") if n.lower() == "content-length" else (n, v) for n, v in hs]
    elif k == "hexcl":
        hs = [(n, "0x" + v) if n.lower() == "content-length" else (n, v) for n, v in hs]
    elif k == "cl-comma":
        hs = [(n, v + ", " + v) if n.lower() == "content-length" else (n, v) for n, v in hs]
    elif k == "emptyname":
        hs.insert(rng.randint(0, len(hs)), ("", "foo"))
    elif k == "nocl":
        hs = [(n, v) for n, v in hs if n.lower() not in ("content-length", "transfer-encoding")]
    elif k == "nohost":
        hs = [(n, v) for n, v in hs if n.lower() != "host"]
    elif k == "duphost":
        hs.append(("Host", rng.choice(["evil", "x"])))
    elif k == "tabline":
        t = t + "\tx"
    elif k == "http10":
        version = "HTTP/1.0"
    elif k == "absform":
        t = "http://other.example" + t
    return render(m, t, hs, body, eol, version), k


def h1_case(rng, cid):
    n = rng.choice([1, 1, 2, 2, 3])
    raw = b""
    muts = []
    for i in range(n):
        m, t, hs, body = valid_request(rng)
        version = rng.choice(H1_VERSIONS)
        if version != "HTTP/1.1":
            muts.append("version")
        if rng.random() < 0.55:
            r, k = mutate(rng, m, t, hs, body, version)
            muts.append(k)
        else:
            r = render(m, t, hs, body, version=version)
        raw += r
    ops = []
    if rng.random() < 0.7:
        ops.append(["cuts"] + sorted(rng.randint(1, max(1, len(raw) - 1)) for _ in range(rng.randint(1, 5))))
    ops.append(["h1", raw])
    return Case(cid, ops, dict(kind="h1", n=n, muts=len([k for k in muts if k != "none"])))


GNAMES = ["Accept", "x-a", "X\"Y", "a/b", "", "X-B", "Transfer-Encoding", "transfer-encoding", "Content-Length", "content-length",
          "Content-Lengthx", "Transfer-Encodin", "TE", "x^~", "X!#$%&'*+-.^_`|~"]
GTE = ["chunked", "Chunked", "CHUNKED", "xchunked", "gzip, chunked", "chunked, chunked", "identity, chunked", "chunked "]
GCL = ["0", "7", "007", "+7", "+0", "-0", "18446744073709551615"]


def guard_case(rng, cid):
    """a header list through sozu's own HTTP/1 acceptance (kawa + on_request_headers)"""
    method = rng.choice(["GET", "POST", "get", "M-SEARCH", "G\"T", "A/B", "PUT"])
    hs, have_te, have_cl = [], False, False
    for _ in range(rng.randint(0, 5)):
        n = rng.choice(GNAMES)
        if n.lower() == "transfer-encoding":
            if have_cl:
                continue
            v = rng.choice(GTE)
            if not v.lower().endswith("chunked"):
                continue          # kawa does not even frame it: out of this op's family
            have_te = True
        elif n.lower() == "content-length":
            if have_te or have_cl:
                continue
            v = rng.choice(GCL)
            if v.lstrip("+-") != "0":
                continue          # no body bytes are appended by the driver
            have_cl = True
        else:
            v = rng.choice(["", "a", "x y", "chunked", "1"])
        hs.append((n, v))
    op = ["guard", b(method)]
    for (n, v) in hs:
        op += [b(n), b(v)]
    return Case(cid, [op], dict(kind="guard", n=len(hs)))


TRAILER_NAMES = ["grpc-status", "grpc-message", "x-t", "x-checksum", "x^~", "a"]
TRAILER_OWNED = ["x-forwarded-for", "forwarded", "x-real-ip", "x-request-id", "sozu-id"]
# names starting with ':' — registered pseudo-headers or not, with arbitrary bytes behind (an HPACK literal carries any octet)
TRAILER_COLON = [":path", ":method", ":scheme", ":authority", ":status", ":protocol", ":", ":x", ":X", "::", ":x-t", ":grpc-status",
                 ":x\r\n\r\nGET /smuggled HTTP/1.1\r\nhost: localhost\r\nx-tail", ":x: 1\r\nx-injected", ":\x00", ":x y", ":\xff"]


def h2t_case(rng, cid):
    """a request trailer block for pkawa::handle_trailer: ordinary names, the attribution names, invalid names and
    values, connection-specific names, te, and ':'-prefixed names of every kind, alone or among valid fields"""
    ts = []
    for _ in range(rng.randint(1, 4)):
        r = rng.random()
        if r < 0.35:
            n, v = rng.choice(TRAILER_NAMES), rng.choice(VALUES)
        elif r < 0.50:
            n, v = rng.choice(TRAILER_OWNED), rng.choice(VALUES)
        elif r < 0.68:
            n, v = rng.choice(TRAILER_COLON), rng.choice(VALUES)
            if rng.random() < 0.25:
                n = ":" + rng.choice(NAMES + BADNAMES)
        elif r < 0.76:
            n, v = rng.choice(BADNAMES), rng.choice(VALUES)
        elif r < 0.82:
            n, v = rng.choice(CONN), rng.choice(VALUES)
        elif r < 0.87:
            n, v = "te", rng.choice(["trailers", "Trailers", "gzip", ""])
        else:
            v = rng.choice(VALUES)
            i = rng.randint(0, len(v))
            v = v[:i] + rng.choice(BADBYTES + OKBYTES) + v[i:]
            n = rng.choice(TRAILER_NAMES)
        ts.append((n, v))
    lf = int(rng.random() < 0.2)
    return Case(cid, [["h2t", lf] + [x for (n, v) in ts for x in (b(n), b(v))]], dict(kind="h2t", n=len(ts)))


def gen_cases(rng, tier):
    n = {"quick": 6000, "thorough": 120000, "search": 20000}.get(tier, 6000)
    out = []
    for i in range(n):
        r = i % 5
        out.append(h2_case(rng, "a%d" % i) if r in (0, 2) else guard_case(rng, "g%d" % i) if r == 4 else h1_case(rng, "b%d" % i))
    for i in range(n // 8):
        out.append(h2t_case(rng, "t%d" % i))
    return out


def bb_cases(rng, tier):
    """raw client byte strings for the black-box tier (real worker, recording backend)"""
    n = {"quick": 120, "thorough": 1500}.get(tier, 120)
    fixed = [
        b"GET / HTTP/1.1\r\nHost: x\r\n\r\nGET /admin HTTP/1.1\r\nHost: x\r\n\r\n",
        b"GET / HTTP/1.1\r\nHost: x\r\n\r\nPOST /admin HTTP/1.1\r\nHost: x\r\nContent-Length: 3\r\n\r\nabc",
        b"POST / HTTP/1.1\r\nHost: x\r\nTransfer-Encoding: xchunked\r\n\r\n0\r\n\r\nGET /s HTTP/1.1\r\nHost: x\r\n\r\n",
        b"POST / HTTP/1.1\r\nHost: x\r\nContent-Length: +3\r\n\r\nabcGET /s HTTP/1.1\r\nHost: x\r\n\r\n",
        b"POST /t HTTP/1.1\r\nHost: x\r\nTransfer-Encoding: chunked\r\n\r\n3\r\nabc\r\n0\r\nX-Forwarded-For: 6.6.6.6\r\nSozu-Id: spoof\r\nX-T: 1\r\n\r\n",
        b"GET / HTTP/1.1\r\nHost: x\r\nX-Forwarded-For: 6.6.6.6\r\nSozu-Id: spoof\r\nX-Request-Id: a\r\nX-Request-Id: b\r\n\r\n",
    ]
    fixed += [
        b"GET / HTTP/1.0\r\nHost: x\r\n\r\nGET /smuggled HTTP/1.1\r\nHost: not-routed.example\r\n\r\n",
        b"POST / HTTP/1.0\r\nHost: x\r\n\r\nGET /smuggled HTTP/1.0\r\nHost: x\r\n\r\n",
        b"DELETE /a HTTP/1.1\r\nHost: x\r\n\r\nOPTIONS /b HTTP/1.0\r\nHost: x\r\n\r\nget /c HTTP/1.1\r\nHost: x\r\n\r\n",
    ]
    out = []
    for i, raw in enumerate(fixed):
        out.append(Case("f%d" % i, [["cuts", 7, 33, 61], ["raw", raw]], dict(kind="bb")))
    for i in range(n):
        c = h1_case(rng, "x%d" % i)
        ops = [op if op[0] != "h1" else ["raw", op[1]] for op in c.ops]
        out.append(Case(c.id, ops, dict(kind="bb")))
    out += early_answer_cases(rng, {"quick": 8, "thorough": 80}.get(tier, 8))
    return out


def early_answer_cases(rng, n):
    """"early response, late body": the client sends a head announcing a body and HOLDS the body (or part of it); the
    backend answers on the head (targets /early*: the recording backend answers as soon as the head is complete); once
    the answer is complete the client sends the body, whose content is itself a well-formed request. The backend must
    never read that content as a request of its own (driver oracle bb-boundaries: what the backend reads is, in order,
    what a strict reader reads in the client's bytes). Driver op: script <bytes> | <pause ms> | r (= wait for one answer)"""
    out = []
    for i in range(n):
        inner = b"GET /smuggled%d HTTP/1.1\r\nHost: x\r\n\r\n" % i
        if i % 4 == 3:
            inner = b"POST /smuggled%d HTTP/1.1\r\nHost: x\r\nContent-Length: 0\r\n\r\n" % i
        body = inner * rng.choice([1, 1, 2])
        head = b"POST /early%d HTTP/1.1\r\nHost: x\r\nContent-Length: %d\r\n\r\n" % (i, len(body))
        held = rng.choice([0, 0, 0, rng.randint(1, len(body) - 1)])          # bytes of the body sent with the head
        steps = [head + body[:held], "r"]
        rest = body[held:]
        if rng.random() < 0.4 and len(rest) > 2:
            k = rng.randint(1, len(rest) - 1)
            steps += [rest[:k], rng.choice([5, 30]), rest[k:]]
        else:
            steps += [rest]
        steps += [rng.choice([100, 250])]
        if rng.random() < 0.5:
            # and a request of the client's own afterwards (answered or not: the connection may have been closed)
            steps += [b"GET /after%d HTTP/1.1\r\nHost: x\r\n\r\n" % i, "r"]
        out.append(Case("ea%d" % i, [["script"] + steps], dict(kind="bb")))
    return out


def h2_stream(rng, tag):
    """one HTTP/2 stream: header list + a DATA schedule (+ trailers); every way of ending a stream
    (DATA+END_STREAM, empty DATA+END_STREAM, TRAILERS+END_STREAM, END_STREAM on HEADERS) is crossed with
    every Content-Length / DATA relation (none, exact, short, long, bad, duplicate)"""
    h2c = rng.random() < 0.3
    clean = rng.random() < 0.45      # only the framing is adversarial
    good_path = ("/h2/%s" % tag) if h2c else ("/%s" % tag)
    # (a client may claim `:scheme: http` on the TLS listener: accepted; toward an h2c backend sozu writes the listener's)
    method, path, auth, scheme = rng.choice(["POST", "POST", "GET", "PUT"]), good_path, "localhost", rng.choice(["https", "https", "https", "http"])
    r = 1.0 if clean else rng.random()
    if r < 0.08:
        method = rng.choice(["GE T", "G\x00T", "", "get"])
    elif r < 0.18:
        path = rng.choice(["a", "", "/a b", "/a#b", "/\x7f", "/ HTTP/1.1"])
    elif r < 0.22:
        auth = rng.choice(["a b", ""])
    elif r < 0.26:
        scheme = rng.choice(["ftp", "HTTP", ""])
    pseudo = [(":method", method), (":scheme", scheme), (":path", path), (":authority", auth)]
    rng.shuffle(pseudo)
    r = 1.0 if clean else rng.random()
    if r < 0.05:
        pseudo.pop(rng.randrange(len(pseudo)))
    elif r < 0.10:
        pseudo.append(rng.choice(pseudo))
    elif r < 0.13:
        pseudo.append((rng.choice([":status", ":x"]), "1"))
    regs = []
    for _ in range(rng.randint(0, 5)):
        r = rng.random() * (0.40 if clean else 1.0)
        if r < 0.40:
            n, v = rng.choice(NAMES + ["x-forwarded-for", "forwarded", "x-real-ip", "x-request-id", "sozu-id"]), rng.choice(VALUES)
        elif r < 0.50:
            n, v = rng.choice(BADNAMES), rng.choice(VALUES)
        elif r < 0.58:
            n, v = rng.choice(CONN), rng.choice(VALUES)
        elif r < 0.66:
            n, v = "te", rng.choice(["trailers", "Trailers", "gzip", "trailers, gzip", ""])
        elif r < 0.78:
            v = rng.choice(VALUES)
            i = rng.randint(0, len(v))
            v = v[:i] + rng.choice(BADBYTES + OKBYTES) + v[i:]
            n = rng.choice(NAMES)
        elif r < 0.86:
            n, v = "host", rng.choice(["localhost", "localhost", "localhost:443", "other", "a b"])
        else:
            n, v = "cookie", rng.choice(["a=b", "a=b; c=d", "SERVERID=x", ""])
        regs.append((n, v))
    if not clean and rng.random() < 0.06 and regs:
        regs.insert(rng.randint(1, len(regs)), pseudo.pop())
    # framing: relation x ending
    rel = rng.choice(["exact", "exact", "short", "short", "long", "long", "nocl", "nocl", "badcl", "dupcl", "es", "cl-es"])
    ending = rng.choice(["data", "data", "empty", "trailers", "trailers"])
    d = rng.choice([0, 1, 5, 9])
    if rel == "short" and d == 0:
        rel = "exact"
    evs, trl, es = [], None, 0
    if rel == "es":
        es, ending = 1, "headers"
    elif rel == "cl-es":
        regs.append(("content-length", str(d)))
        es, ending = 1, "headers"
    else:
        if rel != "nocl":
            cl = str(d)
            if rel == "badcl":
                cl = rng.choice(["+%d" % d, "%d " % d, "0x%d" % d, "", "%d,%d" % (d, d)])
            regs.insert(rng.randint(0, len(regs)), ("content-length", cl))
            if rel == "dupcl":
                regs.append(("content-length", rng.choice([str(d), "0" + str(d), str(d + 1)])))
        total = {"short": rng.randint(0, d - 1) if d else 0, "long": d + rng.randint(1, 4), "nocl": rng.randint(0, 12)}.get(rel, d)
        parts = []
        while total > 0:
            k = rng.randint(1, total)
            parts.append(k)
            total -= k
        if ending == "data":
            parts = parts or [0]
            evs = [(0, k) for k in parts[:-1]] + [(1, parts[-1])]
        elif ending == "empty":
            evs = [(0, k) for k in parts] + [(1, 0)]
        else:
            evs = [(0, k) for k in parts] + [(2,)]
            trl = [(rng.choice(["grpc-status", "x-t", "sozu-id", "x-forwarded-for", "forwarded", "x-real-ip", "x-request-id"] + ([] if clean else ["Bad", "connection", ":path"])),
                    rng.choice(["0", "0", "a\r\nb"] if not clean else ["0"]))]
    return dict(hs=pseudo + regs, es=es, evs=evs, trl=trl, h2c=h2c, fr="%s/%s" % (rel, ending), path=path, good=(path == good_path))


def h2_conn(cid, streams, rng=None):
    """frames of 1-3 streams on one connection, interleaved (per-stream order kept)"""
    per = []
    for k, t in enumerate(streams):
        sid = 2 * k + 1
        l = [["hdr", t["es"]] + [x for (n, v) in t["hs"] for x in (b(n), b(v))]]
        for e in t["evs"]:
            if e[0] != 2:
                l.append(["data", e[1], e[0]])
        if t["trl"]:
            l.append(["trl"] + [x for (n, v) in t["trl"] for x in (b(n), b(v))])
        per.append((sid, l))
    ops, cur = [], None
    idx = [0] * len(per)
    while any(idx[i] < len(per[i][1]) for i in range(len(per))):
        live = [i for i in range(len(per)) if idx[i] < len(per[i][1])]
        # HEADERS must open the streams in increasing id order
        opened = [i for i in live if idx[i] > 0]
        nxt = [i for i in live if idx[i] == 0][:1]
        i = rng.choice(opened + nxt) if rng else live[0]
        if per[i][0] != cur:
            cur = per[i][0]
            ops.append(["sid", cur])
        ops.append(per[i][1][idx[i]])
        idx[i] += 1
    ops.append(["go"])
    return Case(cid, ops, dict(kind="h2bb", streams=streams, fr="+".join(t["fr"] for t in streams)))


def h2_scenario(rng, cid):
    return h2_conn(cid, [h2_stream(rng, "s1")], rng)


def h2_multi(rng, cid):
    return h2_conn(cid, [h2_stream(rng, "s%d" % (2 * k + 1)) for k in range(rng.choice([2, 2, 3]))], rng)


def h2_predict_stream(t, head, trl_obs, work):
    """-> (kind, body, strict) for one stream from the model's observations"""
    trl_ok = True
    if t["trl"]:
        trl_ok = trl_obs[0] == "accept" and not any(n.startswith(":") for (n, _) in t["trl"])
    if head[0] != "accept":
        return ("refused", None, True)
    raw = bytes.fromhex(head[1][1:])
    m = re.search(rb"(?im)^content-length: *([0-9]+)\r$", raw)
    injected = re.search(rb"(?m)^Content-Length: 0\r$", raw) is not None
    declared = None if (m is None or (injected and t["es"])) else int(m.group(1))
    if t["es"]:
        return ("answered", 0, True)
    lops = ["ledger", 1 if declared is not None else 0, declared or 0]
    for e in t["evs"]:
        lops += [2] if e[0] == 2 else [e[0], e[1]]
    lt = vlib.model_observations(Case("l", [lops]), RUN_MODULE, RUN_FN, os.path.join(work, "h2pred"))
    lo = [l.split()[2:] for l in lt.splitlines() if l.startswith("mobs")][0]
    if lo[0] == "complete" and trl_ok:
        return ("answered", int(lo[1]), True)
    # refused. When some prefix of the DATA delivered exactly the declared length, the HTTP/1.1 backend already
    # holds a complete request and may answer before the excess is seen: either outcome is then legitimate.
    strict = True
    if declared is not None:
        got = 0
        for e in t["evs"]:
            if e[0] != 2:
                got += e[1]
                if got == declared and sum(x[1] for x in t["evs"] if x[0] != 2) > declared:
                    strict = False
    return ("refused", None, strict)


def h2_predictions(scns, work):
    """client outcomes predicted by the extracted model: accept_h2 (+ trailer validity) then the ledger"""
    ops = []
    for c in scns:
        for t in c.tags["streams"]:
            ops.append(["h2", t["es"]] + [x for (n, v) in t["hs"] for x in (b(n), b(v))])
            if t["trl"]:
                ops.append(["h2", 1, b":method", b"GET", b":scheme", b"https", b":path", b"/", b":authority", b"x"]
                           + [x for (n, v) in t["trl"] for x in (b(n), b(v))])
    text = vlib.model_observations(Case("p", ops), RUN_MODULE, RUN_FN, os.path.join(work, "h2pred"))
    mobs = [l.split()[2:] for l in text.splitlines() if l.startswith("mobs")]
    if len(mobs) != len(ops):
        raise RuntimeError("model printed %d observations for %d ops" % (len(mobs), len(ops)))
    preds, i = [], 0
    for c in scns:
        ps = []
        for t in c.tags["streams"]:
            head = mobs[i]
            i += 1
            trl_obs = None
            if t["trl"]:
                trl_obs = mobs[i]
                i += 1
            ps.append(h2_predict_stream(t, head, trl_obs, work))
        preds.append(ps)
    return preds


def parse_h2_obs(ob):
    """obs of c03h2bb -> (outcomes {sid: (kind, code)}, goaway, h1 {target: body}, h2c {path: (data, complete)})"""
    i = 1
    n = ob[i]; i += 1
    outc = {}
    for _ in range(n):
        outc[ob[i]] = (ob[i + 1], ob[i + 2]); i += 3
    assert ob[i] == "goaway"; goaway = ob[i + 1]; i += 2
    assert ob[i] == "seen"; m = ob[i + 1]; i += 2
    h1 = {}
    for _ in range(m):
        h1[ob[i]] = ob[i + 1]; i += 2
    assert ob[i] == "h2seen"; k = ob[i + 1]; i += 2
    h2 = {}
    for _ in range(k):
        h2[ob[i]] = (ob[i + 1], ob[i + 2]); i += 3
    # then: `h2rst` n path*  (streams on which the h2c backend received RST_STREAM), see parse_h2_rst
    return outc, goaway, h1, h2


def parse_h2_rst(ob):
    if "h2rst" not in ob:
        return []
    i = ob.index("h2rst")
    return list(ob[i + 2:i + 2 + ob[i + 1]])


def h2_cancel_cases(rng, n):
    """a stream whose request body is INCOMPLETE ends - answered on its head by the backend then cancelled by the client
    with RST_STREAM, or cancelled before any answer - and another stream goes to the same backend. HTTP/1.1 backend: the
    second request must reach the backend as a request of its own, never on the connection where the backend still waits
    for the first body (witness of the finding fixed in h1.rs end_stream, 210f399); a cancelled chunked upload never gets
    its last-chunk. h2c backend (/h2/ paths): the cancelled stream is never shown END_STREAM, the backend receives
    RST_STREAM for it (no half-open request left on the shared connection), the next stream is served on it."""
    out = []
    for i in range(n):
        h2c = i % 3 == 1
        pre = "/h2" if h2c else ""
        declared = rng.choice([400, 400, 5, 70000, None, None])
        cap = min(declared, 300) if declared else 300
        sent = rng.choice([0, 0, rng.randint(1, cap - 1)]) if declared else rng.randint(1, cap)
        answered_first = (i % 3 == 0) or (h2c and i % 2 == 1)      # both recording backends answer /early* on the head
        p1 = pre + (("/early%d" % i) if answered_first else ("/held%d" % i))
        hs = [":method", "POST", ":scheme", "https", ":path", p1, ":authority", "localhost"] + (["content-length", str(declared)] if declared else [])
        ops = [["sid", 1], ["hdr", 0] + [b(x) for x in hs]]
        if sent:
            ops.append(["data", sent, 0])
        if answered_first:
            ops.append(["await", 1])
        else:
            ops.append(["wait", rng.choice([20, 60])])
        ops.append(["rst", rng.choice([8, 8, 0])])
        ops.append(["wait", rng.choice([10, 50, 120])])
        second_post = rng.random() < 0.4
        ops.append(["sid", 3])
        p2 = pre + "/second%d" % i
        if second_post:
            ops.append(["hdr", 0] + [b(x) for x in (":method", "POST", ":scheme", "https", ":path", p2, ":authority", "localhost", "content-length", "5")])
            ops.append(["data", 5, 1])
        else:
            ops.append(["hdr", 1] + [b(x) for x in (":method", "GET", ":scheme", "https", ":path", p2, ":authority", "localhost")])
        ops.append(["go"])
        out.append(Case("zc%d" % i, ops, dict(kind="h2cancel", first=p1, second=p2, body=5 if second_post else 0, answered_first=answered_first, h2c=h2c)))
    return out


def judge_h2_cancel(c, o, res):
    ob = [x for x in o["obs"] if x and x[0] == "client"]
    if not ob:
        res["failures"].append("black-box h2: no observation for case %s" % c.id)
        return
    outc, goaway, h1, h2 = parse_h2_obs(ob[0])
    rsts = parse_h2_rst(ob[0])
    kind, code = outc.get(3, ("silent", 0))
    key, first = b(c.tags["second"]), b(c.tags["first"])
    if c.tags["h2c"]:
        got = h2.get(key)
        if kind != "answered" or got is None or got[0] != c.tags["body"] or not got[1]:
            res["viols"].append((c, "h2bb-cancelled-upload", "after a cancelled upload the next stream to the h2c backend (%s) got %s %s, backend saw %r" % (c.tags["second"], kind, code, got)))
        f = h2.get(first)
        if f is not None and f[1]:
            res["viols"].append((c, "h2bb-cancelled-complete", "the h2c backend was shown END_STREAM on %s, an upload the client cancelled before its end" % c.tags["first"]))
        if f is not None and first not in rsts:
            res["viols"].append((c, "h2bb-half-open", "the h2c backend holds a half-open request (%s, cancelled by the client): no RST_STREAM reached it" % c.tags["first"]))
    else:
        if kind != "answered" or h1.get(key) != c.tags["body"]:
            res["viols"].append((c, "h2bb-cancelled-upload", "after the stream with an unfinished request body ended, the next stream (%s) got %s %s and the "
                                 "backend read %r as its body (seen %r): it was written on the connection where the backend still waits for the first body"
                                 % (c.tags["second"], kind, code, h1.get(key), sorted(h1))))
        if first in h1:
            res["viols"].append((c, "h2bb-cancelled-complete", "the HTTP/1.1 backend read %s as a COMPLETE request although the client cancelled the upload before its end" % c.tags["first"]))
    if c.tags["answered_first"] and outc.get(1, ("silent", 0))[0] != "answered":
        res["failures"].append("black-box h2: case %s: the backend's early answer did not reach the client (%r)" % (c.id, outc.get(1)))


def extra_stage(tier, rng, work):
    res = extra_stage_h1(tier, rng, work)
    n = {"quick": 70, "thorough": 1000}.get(tier, 70)
    scns = [h2_scenario(rng, "z%d" % i) for i in range(n)] + [h2_multi(rng, "zm%d" % i) for i in range(n // 2)]
    # witness of 941ee02 (corpus/C03/bb/h2bb_cl_trailers.case): Content-Length framing + trailers
    whs = [(":scheme", "https"), (":path", "/s1"), (":authority", "localhost"), (":method", "POST"), ("content-length", "5"), ("x-a", "1.2.3.4")]
    scns.append(h2_conn("zw1", [dict(hs=whs, es=0, evs=[(0, 1), (0, 3), (0, 1), (2,)], trl=[("x-t", "0")], h2c=False, fr="exact/trailers", path="/s1", good=True)]))
    # witness of the reviewer's h2.rs mutation: a short body closed by TRAILERS+END_STREAM must be refused
    whs2 = [(":method", "POST"), (":scheme", "https"), (":path", "/s1"), (":authority", "localhost"), ("content-length", "10")]
    scns.append(h2_conn("zw2", [dict(hs=whs2, es=0, evs=[(0, 5), (2,)], trl=[("x-t", "0")], h2c=False, fr="short/trailers", path="/s1", good=True)]))
    try:
        preds = h2_predictions(scns, work)
    except Exception as ex:
        res["failures"].append("black-box h2: model predictions unavailable: %r" % (ex,))
        return res
    cancels = h2_cancel_cases(rng, {"quick": 12, "thorough": 90}.get(tier, 12))
    outs, problems = vlib.run_harness("c03h2bb", scns + cancels, os.path.join(work, "h2bb"), "release", timeout=300, shards=6)
    res["failures"] += problems
    for c in cancels:
        o = outs.get(c.id)
        if o is None:
            res["failures"].append("black-box h2: no result for case %s" % c.id)
            continue
        for (vc, vt) in o["viol"]:
            res["viols"].append((c, vc, vt))
        judge_h2_cancel(c, o, res)
    answered = refused = goaways = 0
    for c, ps in zip(scns, preds):
        o = outs.get(c.id)
        if o is None:
            res["failures"].append("black-box h2: no result for case %s" % c.id)
            continue
        if any(nt.startswith("invalid-case") for nt in o["notes"]):
            res["failures"].append("black-box h2: the worker never answered the probe")
            break
        for (vc, vt) in o["viol"]:
            res["viols"].append((c, vc, vt))
        ob = [x for x in o["obs"] if x and x[0] == "client"]
        if not ob:
            continue
        outc, goaway, h1, h2 = parse_h2_obs(ob[0])
        goaways += goaway
        multi = len(ps) > 1
        for k, (t, (kind, body, strict)) in enumerate(zip(c.tags["streams"], ps)):
            sid = 2 * k + 1
            got_kind, code = outc.get(sid, ("silent", 0))
            if got_kind == "answered":
                answered += 1
            else:
                refused += 1
            # a connection error (GOAWAY) caused by a sibling stream takes the other streams with it
            lenient = multi and goaway
            if kind == "answered":
                if got_kind != "answered":
                    if not lenient:
                        res["viols"].append((c, "h2bb-outcome", "stream %d: the model accepts it (framing %s) but the client got %s %s" % (sid, t["fr"], got_kind, code)))
                else:
                    key = b(t["path"])
                    if t["h2c"]:
                        nbody = h2.get(key, (None, 0))[0]
                    else:
                        nbody = h1.get(key)
                    if nbody != body:
                        res["viols"].append((c, "h2bb-boundary", "stream %d: sozu understood a %d byte body, the backend read %r" % (sid, body, nbody)))
            elif strict and got_kind == "answered":
                res["viols"].append((c, "h2bb-outcome", "stream %d: the model refuses it (framing %s) but the client got 200" % (sid, t["fr"])))
            elif strict and got_kind == "silent":
                res["viols"].append((c, "h2bb-outcome", "stream %d: the model refuses it (framing %s): the client must get RST_STREAM / GOAWAY / an error status, it got nothing within the deadline" % (sid, t["fr"])))
    res["coverage"].update(blackbox_h2_connections=len(scns), blackbox_h2_answered=answered, blackbox_h2_refused=refused, blackbox_h2_goaways=goaways)
    return res


def extra_stage_h1(tier, rng, work):
    cases = bb_cases(rng, tier)
    outs, problems = vlib.run_harness("c03bb", cases, os.path.join(work, "bb"), "release", timeout=240, shards=6)
    viols, seen, answered = [], 0, 0
    for c in cases:
        o = outs.get(c.id)
        if o is None:
            problems.append("black-box: no result for case %s" % c.id)
            continue
        for (vc, vt) in o["viol"]:
            viols.append((c, vc, vt))
        for ob in o["obs"]:
            if ob and ob[0] == "seen":
                seen += ob[1]
                answered += ob[3]
    return dict(failures=problems, viols=viols,
                coverage=dict(blackbox_cases=len(cases), blackbox_requests_seen_by_backend=seen, blackbox_answers=answered))


def corpus_cases():
    d = os.path.join(vlib.ROOT, "corpus", ID)
    out = []
    if os.path.isdir(d):
        for f in sorted(os.listdir(d)):
            if f.endswith(".case"):
                for c in vlib.parse_cases(open(os.path.join(d, f)).read()):
                    c.id = "k" + c.id
                    out.append(c)
    return out


def nontrivial(case, o):
    t = case.tags
    if t.get("kind") == "h2":
        return any(ob and ob[0] == "accept" for ob in o["obs"]) and t.get("regs", 0) >= 2
    if t.get("kind") == "guard":
        return t.get("n", 0) >= 2
    if t.get("kind") == "h2t":
        return t.get("n", 0) >= 2
    return t.get("n", 0) >= 2 or t.get("muts", 0) >= 1


LEVEL_TEXT = ("Machine-checked proof (Coq 8.16): for EVERY HTTP/2 header list accepted by the model of pkawa::handle_header, "
              "the strict RFC 9112 reference reader reads in the bytes of the model of kawa's H1 serialiser exactly one request "
              "head - the method, target, host and field list sozu understood - and delimits the body by the framing sozu chose "
              "(h2_to_h1_unambiguous: request line, every field, the Cookie line, Host, Content-Length/chunked composed); "
              "sozu's own HTTP/1 acceptance (h1_guard, mirror of editor.rs::h1_framing_violation) only forwards token names, "
              "one exact 'chunked', 1*DIGIT lengths (h1_acceptance_well_formed) and what it forwards is read back field by "
              "field; the Content-Length/DATA ledger never completes a stream whose DATA total differs. Tied to /repo on every "
              "run by shape/byte-class translators, by a differential run of the real handle_header + kawa serialiser and of "
              "the real kawa parser + HttpContext against the extracted model and strict reader, and by a black-box tier (real "
              "worker, recording backend with a strict reader, smuggling grammar at several segmentations).")
LEVEL_NOTE = ("H2->H1 full on the model (head, body framing, trailer section: h2_pseudo_trailer_refused / h2_accepted_trailers_well_formed / "
              "h2_trailers_end_the_request over all byte strings); H1->H1: names/framing fields are sozu's own checks (theorem), the value "
              "alphabet and chunk framing are kawa's (oracle, checked differentially in-process and black-box). Connection reuse: "
              "parked_connection_has_no_unfinished_request mirrors ConnectionH1::end_stream (translator reads the guard; black-box: an upload "
              "answered on its head and cancelled, then another stream). Defects found and fixed in /repo: 69cd28f ec3448b a45ed0a c0b6134 "
              "f7fde4a 40e95ec 0aa2506 941ee02 210f399. Black-box tiers: HTTP/1 frontend (smuggling grammar at several segmentations, scripted "
              "clients: body withheld until the backend's early answer, oracle = the backend reads what a strict reader reads in the client's "
              "bytes) and HTTP/2 frontend over TLS (header-list mutations + DATA/Content-Length schedules, cancelled uploads, HTTP/1.1 and h2c "
              "recording backends), client outcome compared with accept_h2 + data_agree.")
TECHNIQUE = "Rocq/Coq proof over an executable Gallina model + differential correspondence (extracted OCaml vs real crate)"
CLAIMED = True
