"""C17 — TLS always serves a loaded certificate that covers the requested name."""
import json, os, re
import vlib
from vlib import Case

ID = "C17"
COQ_DIRS = ["Common", "C17"]
COQ_TARGETS = ["C17/Props.vo", "C17/Run.vo"]
PROPS_MODULES = ["C17.Props"]
RUN_MODULE = "C17.Run"
RUN_FN = "run_case"
HARNESS_BIN = "c17"
HARNESS_BINS = ["c17", "c17bb", "c17sni"]
SHRINK_KEEP = ("sni", "idna")
CLAIMED = True
RULE = ("cases: histories of 1-14 add / remove / replace over a committed pool of 10 certificates (openssl; overlapping "
        "exact and wildcard SANs, CN-only, distinct notAfter) with operator name overrides and expiry overrides drawn "
        "from small colliding pools (equal expiries included), idempotent replaces, replaces of absent / unparsable old "
        "fingerprints, unparsable new certificates; SNI probes between the operations and over the whole SNI pool at the "
        "end; a second family exercises the strict-SNI predicate on decorated authorities (port, trailing dot, case, "
        "IPv6 literal, embedded wildcards); real ClientHellos (server name in relative or absolute form, capitals) through MutexCertificateResolver::resolve after some operations and at the end (`hello`); a third the legacy exact predicate authority_matches_sni (the server name, its prefixes and extensions, capitals, port and non-port suffixes). Non-trivial and distinct: >= 2 certificates loaded that share a name, >= 1 "
        "removal or replacement of a loaded certificate, and >= 2 distinct probe answers; distinct by op text.")
ASSUMPTIONS = [
    "PEM/x509/key parsing and SHA-256 are oracles: operations carry the parsed (fingerprint, names, expiration); the driver checks them against the real parser for every pool certificate",
    "certificate names containing '/' are dropped at parse (fix 44260b2) and never reach the trie: the resolver's trie only sees plain names, so the regex oracles are irrelevant for C17 (the model runs with regexes that never compile)",
    "idna::domain_to_ascii is an oracle on names that are not plain ASCII: its answers are passed as `idna` rows and checked by the driver against the real crate; on the other names it is ASCII lower-casing (checked per name)",
    "HashMap-backed store and index are modelled as association lists with unique keys",
    "the rustls handshake (ResolvesServerCert::resolve glue, default certificate), the https.rs listener glue and the 421 call site of the strict-SNI predicate are exercised by the black-box tiers only (real worker, real handshakes, H1 and H2 requests, counting backend), not by proof",
]
TRUSTED = ["translator props/c17.py:translate reads (by meaning: locals free, comments ignored) the sort direction, the last() choice, the re-pointing, the two short-circuits, the name normalisation and the add-before-remove order in lib/src/tls.rs, and the four parts of the strict-SNI decision in mux/router.rs route_from_request (guard on server name + strict_sni_binding, names -> authority_matched_cert_name, no names -> authority_matches_sni, nothing matched -> SniAuthorityMismatch; hard), and the name looked up at the handshake (tls.rs MutexCertificateResolver::resolve: one trailing dot dropped, wild-cards accepted) and for the strict-SNI snapshot (https.rs upgrade_handshake: lower-cased, one trailing dot dropped, names_for_sni; hard); unrecognised constructs fall back on the correspondence run (TRANSLATE_FALLBACK), except add-before-remove which nothing observes"]

MAN = os.path.join(vlib.ROOT, "corpus", "certs", "c17", "manifest.json")


TRANSLATE_FALLBACK = ("every fact read here except the add-before-remove order of replace_certificate is a behaviour of "
                      "CertificateResolver that the driver observes after every history: which fingerprint each SNI of the pool "
                      "resolves to (sort direction and last() = longest-lived; re-pointing on add; retain + re-insert on "
                      "remove; duplicate-fingerprint and idempotent-replace short-circuits; a failing replace leaving every "
                      "name served; names lower-cased / idna / '/'-filtered), on generated cases with equal expirations, "
                      "shared names, removals of the currently served certificate, U-label, capital and '/' names; each of "
                      "these facts, when changed, was seen to produce hundreds of model/driver disagreements and oracle "
                      "violations in the quick batch")


from props import _tutil as TU


def translate():
    """reads, where they live, the facts of lib/src/tls.rs the model mirrors (props/_tutil.py: locals free, comments
    stripped).  Found but reading otherwise = hard failure; not found at all = `unreadable:` only for the facts declared
    soft (SOFT_TESTED), hard otherwise."""
    fails = []
    try:
        t = TU.strip(open(os.path.join(vlib.REPO, "lib/src/tls.rs")).read())
    except OSError as ex:
        return ["lib/src/tls.rs cannot be read: %r" % (ex,)]
    F = TU.fact
    add, rem, rep = TU.fn_body(t, "add_certificate"), TU.fn_body(t, "remove_certificate"), TU.fn_body(t, "replace_certificate")
    tf = re.search(r"impl TryFrom<&AddCertificate> for CertifiedKeyWrapper \{(.*?)\n\}", t, re.S)
    tf = tf.group(1) if tf else None
    F(fails, add, "tls.rs add_certificate", "the candidates of a name are sorted by expiration, ascending", r"\.sort\w*\(",
      [r"\.sort_by_key\(\|%(W)s\|\s*%(W)s\.1\)", r"\.sort_unstable_by_key\(\|%(W)s\|\s*%(W)s\.1\)",
       r"\.sort_by\(\|(%(W)s), (%(W)s)\|\s*\1\.1\.cmp\(&\2\.1\)\)"], 1, soft=True)
    F(fails, add, "tls.rs add_certificate", "the longest-lived candidate is the LAST of the sorted list", r"\.(last|first|next_back|next|max_by_key|min_by_key)\(",
      [r"\.last\(\)", r"\.iter\(\)\s*\.next_back\(\)"], 1, soft=True)
    F(fails, add, "tls.rs add_certificate", "the trie is re-pointed: domains.remove(name) then domains.insert(name, longest-lived)",
      r"self\s*\.domains\s*\.(domain_)?insert\(", [r"domains\s*\.(domain_)?remove\([^;]*;\s*self\s*\.domains\s*\.(domain_)?insert\("], 1)
    F(fails, add, "tls.rs add_certificate", "a fingerprint already stored returns early without touching anything",
      r"self\.certificates\.(contains_key|get)\(",
      [r"if\s+self\.certificates\.contains_key\(&%(W)s(\.fingerprint)?\)\s*\{\s*return Ok\(",
       r"if\s+self\.certificates\.get\(&%(W)s(\.fingerprint)?\)\.is_some\(\)\s*\{\s*return Ok\(",
       r"let\s+(%(W)s)\s*=\s*self\.certificates\.contains_key\(&%(W)s(\.fingerprint)?\);\s*if\s+\1\s*\{\s*return Ok\("], 1)
    F(fails, rem, "tls.rs remove_certificate", "the removed fingerprint is filtered out of the name's candidates", r"\.retain\(",
      [r"\.retain\(\|%(W)s\|\s*&?%(W)s\.0\s*!=\s*\*?%(W)s\)", r"\.retain\(\|\(%(W)s, _\)\|\s*%(W)s\s*!=\s*%(W)s\)",
       r"\.retain\(\|%(W)s\|\s*\*?%(W)s\s*!=\s*&?%(W)s\.0\)"], 1)
    F(fails, rem, "tls.rs remove_certificate", "the next longest-lived candidate (last of the list) is re-inserted in the trie",
      r"self\s*\.domains\s*\.(domain_)?insert\(",
      [r"\.last\(\)\s*\{\s*self\s*\.domains\s*\.(domain_)?insert\(", r"\.last\(\)\s*\{\s*Some\(%(W)s\)\s*=>\s*\{\s*self\s*\.domains\s*\.(domain_)?insert\("], 1, soft=True)
    F(fails, rep, "tls.rs replace_certificate", "idempotent replace (old fingerprint == new fingerprint, nothing else) returns without touching the store",
      r"if\s+%(W)s\s*==\s*%(W)s", [r"if\s+%(W)s\s*==\s*%(W)s\s*\{"], 1, soft=True)
    F(fails, rep, "tls.rs replace_certificate", "the new certificate is parsed (errors out) before anything is touched",
      r"CertifiedKeyWrapper::try_from\(", [r"CertifiedKeyWrapper::try_from\(&%(W)s\)\?.*?self\s*\.add_certificate\("], 1)
    F(fails, tf, "tls.rs TryFrom<&AddCertificate>", "names containing '/' are dropped", r"contains\('/'\)",
      [r"\.filter\(\|%(W)s\|\s*!%(W)s\.contains\('/'\)\)", r"\.retain\(\|%(W)s\|\s*!%(W)s\.contains\('/'\)\)"], 1)
    F(fails, tf, "tls.rs TryFrom<&AddCertificate>", "names are kept in their idna ASCII form, lower-cased when idna refuses them", r"idna::domain_to_ascii\(",
      [r"idna::domain_to_ascii\(&?%(W)s\)\s*\.unwrap_or_else\(\|_\|\s*%(W)s\.to_ascii_lowercase\(\)\)",
       r"match\s+(::)?idna::domain_to_ascii\(&?%(W)s\)\s*\{\s*Ok\((%(W)s)\)\s*=>\s*\2,\s*Err\(_\)\s*=>\s*%(W)s\.to_ascii_lowercase\(\)"], 1)
    # the strict-SNI decision at the call site (model: strict_decision).  The in-process driver executes the two
    # predicates, not route_from_request itself (the strict-SNI black-box tier does, through a real worker), so these
    # are hard: not found = failure.
    try:
        rt = TU.strip(open(os.path.join(vlib.REPO, "lib/src/protocol/mux/router.rs")).read())
    except OSError as ex:
        return fails + ["lib/src/protocol/mux/router.rs cannot be read: %r" % (ex,)]
    rfr = TU.fn_body(rt, "route_from_request")
    F(fails, rfr, "mux/router.rs route_from_request", "the check is made only with a server name AND strict_sni_binding", r"strict_sni_binding",
      [r"tls_server_name\s*\.as_deref\(\)\s*\.filter\(\|_\|\s*context\.strict_sni_binding\)",
       r"if\s+context\.strict_sni_binding\s*\{\s*if let Some\(%(W)s\)\s*=\s*context\s*\.tls_server_name\s*\.as_deref\(\)",
       r"if let \(true, Some\(%(W)s\)\)\s*=\s*\(context\.strict_sni_binding,\s*context\s*\.tls_server_name\s*\.as_deref\(\)\)"], 1)
    F(fails, rfr, "mux/router.rs route_from_request", "with recorded certificate names the authority must be covered by one of them",
      r"authority_matched_cert_name\(", [r"Some\((%(W)s)\)\s*=>\s*authority_matched_cert_name\(host,\s*\1\)",
                                        r"if let Some\((%(W)s)\)\s*=\s*context\.tls_cert_names\.as_deref\(\)\s*\{\s*authority_matched_cert_name\(host,\s*\1\)"], 1)
    F(fails, rfr, "mux/router.rs route_from_request", "without recorded names the authority must be the server name (authority_matches_sni), else nothing matched",
      r"None\s*=>\s*\{?\s*(if\s+)?authority_matches_sni\(|else\s*\{\s*(if\s+)?authority_matches_sni\(",
      [r"if\s+authority_matches_sni\(host,\s*(%(W)s)\)\s*\{\s*Some\(\1\)\s*\}\s*else\s*\{\s*None\s*\}",
       r"authority_matches_sni\(host,\s*(%(W)s)\)\.then_some\(\1\)"], 1)
    F(fails, rfr, "mux/router.rs route_from_request", "nothing matched = the request is refused (SniAuthorityMismatch, answered 421)",
      r"SniAuthorityMismatch", [r"None\s*=>\s*\{.*?return Err\(RetrieveClusterError::SniAuthorityMismatch", r"let Some\(%(W)s\)\s*=\s*%(W)s\s*else\s*\{.*?return Err\(RetrieveClusterError::SniAuthorityMismatch"], 1)
    # the name looked up at the handshake and for the strict-SNI snapshot (model: conn_name).  resolve() is observed by
    # the `hello` op (real ClientHello), upgrade_handshake by the black-box tiers only: all hard.
    m = re.search(r"impl ResolvesServerCert for MutexCertificateResolver \{(.*?)\n\}", t, re.S)
    res = TU.fn_body(m.group(1), "resolve") if m else None
    F(fails, res, "tls.rs MutexCertificateResolver::resolve", "one trailing dot of the server name is dropped before the lookup (absolute form)",
      r"strip_suffix\(|trim_end_matches\(|ends_with\('\.'\)", [r"let\s+(%(W)s)\s*=\s*\1\.strip_suffix\('\.'\)\.unwrap_or\(\1\)"], 1)
    F(fails, res, "tls.rs MutexCertificateResolver::resolve", "the name is looked up accepting wild-cards", r"domain_lookup\(",
      [r"domain_lookup\(%(W)s\.as_bytes\(\),\s*true\)"], 1)
    try:
        ht = TU.strip(open(os.path.join(vlib.REPO, "lib/src/https.rs")).read())
    except OSError as ex:
        return fails + ["lib/src/https.rs cannot be read: %r" % (ex,)]
    up = TU.fn_body(ht, "upgrade_handshake")
    F(fails, up, "https.rs upgrade_handshake", "the session's server name is lower-cased", r"\.server_name\(\)",
      [r"\.server_name\(\)\s*\.map\(\|(%(W)s)\|\s*\1\.to_ascii_lowercase\(\)\)"], 1)
    F(fails, up, "https.rs upgrade_handshake", "one trailing dot is dropped from the server name (and from the snapshot's names)",
      r"ends_with\('\.'\)|strip_suffix\('\.'\)", [r"if\s+(%(W)s)\.ends_with\('\.'\)\s*\{\s*\1\.pop\(\);\s*\}"], 2)
    F(fails, up, "https.rs upgrade_handshake", "the strict-SNI snapshot is names_for_sni of that name", r"names_for_sni\(",
      [r"\.names_for_sni\(%(W)s\.as_bytes\(\)\)"], 1)
    # NOT observable (both orders reach the same final state): add-before-remove inside replace_certificate. Read by
    # position of the two calls (public method names); hard when it cannot be read.
    if rep is not None:
        ia = re.search(r"self\s*\.add_certificate\(", rep)
        ir = re.search(r"self\s*\.remove_certificate\(", rep)
        if not ia or not ir:
            fails.append("lib/src/tls.rs: replace_certificate: the calls self.add_certificate / self.remove_certificate cannot be "
                         "located, so add-before-remove (replace_no_gap) is not established; nothing observes this fact")
        elif ir.start() < ia.start():
            fails.append("lib/src/tls.rs: replace_certificate removes the old certificate before it adds the new one (replace_no_gap)")
    return fails


# facts declared soft above; for each, a breaking variant in an unrecognisable spelling was seen to exit 1 through the
# correspondence run (harmless/C17_*_unreadable_changed.diff)
SOFT_TESTED = ["sort direction / choice of the last", "re-insert of the next candidate on removal", "idempotent replace"]


NAMES = [b"a.com", b"www.a.com", b"*.a.com", b"x.a.com", b"*.x.a.com", b"b.com", b"*.b.com", b"c.org", b"y.x.a.com"]
ODD_NAMES = [b"abc/", b".com", b"", b"a.com.", b"a..com", b"*"]
CASE_NAMES = [b"B.com", b"A.COM"]
# names on which idna::domain_to_ascii is not plain lower-casing (answers checked by the driver against the real crate),
# and names that are not DNS names at all
IDNA = {"bücher.a.com".encode(): b"xn--bcher-kva.a.com", "*.bücher.a.com".encode(): b"*.xn--bcher-kva.a.com",
        "BÜCHER.a.com".encode(): b"xn--bcher-kva.a.com", "münchen.b.com".encode(): b"xn--mnchen-3ya.b.com"}
IDN_NAMES = list(IDNA) + [b"xn--bcher-kva.a.com", b"XN--BCHER-KVA.a.com"]
SLASH_NAMES = [b"/x.*/.a.com", b"/.*/", b"w./[a-z]+/.a.com", b"a.com/", b"/x/"]
IDN_SNIS = [b"xn--bcher-kva.a.com", b"w.xn--bcher-kva.a.com", b"xn--mnchen-3ya.b.com"]
EXPS = [100, 200, 200, 300, 50, 200]
SNIS = [b"a.com", b"www.a.com", b"x.a.com", b"q.a.com", b"y.x.a.com", b"z.x.a.com", b"b.com", b"w.b.com", b"c.org",
        b"d.org", b"localhost", b"com"]
ODD_SNIS = [b".a.com", b"", b"a.com.", b"q..a.com"]


def pool():
    return json.load(open(MAN))


def cert_args(rng, P, family):
    c = rng.choice(P)
    fp = bytes.fromhex(c["fp"])
    ovn = rng.random() < 0.6
    ove = rng.random() < 0.6
    if ovn:
        src = NAMES + (ODD_NAMES + SLASH_NAMES if family == "odd" else []) + (CASE_NAMES if family == "case" else []) \
            + (IDN_NAMES + NAMES[:3] if family == "idn" else [])
        names = [rng.choice(src) for _ in range(rng.randint(1, 3))]
    else:
        names = [n.encode() for n in c["names"]]
    exp = rng.choice(EXPS) if ove else c["not_after"]
    return c["idx"], fp, int(ovn), int(ove), exp, names


def history_case(rng, cid, family):
    P = pool()
    sub = rng.sample(P, rng.randint(2, 5))
    ops, loaded = [], []
    snis = list(SNIS) + (ODD_SNIS if family == "odd" else []) + (IDN_SNIS if family == "idn" else [])

    def probes(k):
        return [["sni", rng.choice(snis)] for _ in range(k)]

    for _ in range(rng.randint(1, 14)):
        r = rng.random()
        if r < 0.5 or not loaded:
            idx, fp, ovn, ove, exp, names = cert_args(rng, sub, family)
            ops.append(["add", idx, ovn, ove, fp, exp] + names)
            loaded.append(fp)
        elif r < 0.7:
            fp = rng.choice(loaded) if rng.random() < 0.85 else bytes.fromhex(rng.choice(P)["fp"])
            ops.append(["del", fp])
        elif r < 0.93:
            idx, fp, ovn, ove, exp, names = cert_args(rng, sub, family)
            k = rng.random()
            if k < 0.6:
                oldk, old = 1, rng.choice(loaded)
            elif k < 0.75:
                oldk, old = 1, fp                      # idempotent replace
            elif k < 0.9:
                oldk, old = 1, bytes.fromhex(rng.choice(P)["fp"])
            else:
                oldk, old = 0, b""
            ops.append(["rep", idx, ovn, ove, fp, exp, oldk, old] + names)
            loaded.append(fp)
        elif r < 0.97:
            ops.append(["addbad"])
        else:
            ops.append(["repbad", 1, rng.choice(loaded)])
        if rng.random() < 0.5:
            ops += probes(rng.randint(1, 3))
    for n in snis:
        ops.append(["sni", n])
    used = {t for op in ops if op[0] in ("add", "rep") for t in op if isinstance(t, bytes) and t in IDNA}
    ops = [["idna", n, IDNA[n]] for n in sorted(used)] + ops
    return Case(cid, ops, dict(family=family))


AUTH_HOSTS = [b"a.com", b"x.a.com", b"x.y.a.com", b"b.com", b"A.com", b"X.A.COM", b"", b".a.com", b"[::1]", b"a.com.", b"x.a.com.", b"com",
              b"x.*.a.com", b"*.a.com", b"fx.a.com", b"xa.com"]
AUTH_DECOR = [b"", b"", b":443", b":", b":80a", b":8443", b".", b".:443", b":443.", b"..", b":00"]
AUTH_NAMES = [b"a.com", b"*.a.com", b"f*.a.com", b"*.*.a.com", b"*a.com", b"A.com", b"x.a.com", b"*.y.a.com", b"b.com", b"*.com", b"*.", b"*"]


def auth_case(rng, cid):
    ops = []
    for _ in range(rng.randint(6, 16)):
        a = rng.choice(AUTH_HOSTS) + rng.choice(AUTH_DECOR)
        names = rng.sample(AUTH_NAMES, rng.randint(0, 4))
        ops.append(["auth", a] + names)
    return Case(cid, ops, dict(family="auth"))


def with_hello(rng, c):
    """real ClientHellos through MutexCertificateResolver::resolve: the server name as a peer may write it on the
    wire -- relative or absolute form (trailing dot), capitals -- after some operations and at the end"""
    def variants(n):
        return rng.choice([n, n + b".", n + b".", n.upper(), n.upper() + b"."])
    ops = []
    for op in c.ops:
        ops.append(op)
        if op[0] in ("add", "del", "rep") and rng.random() < 0.3:
            ops.append(["hello", variants(rng.choice(SNIS))])
    for n in rng.sample(SNIS, 5) + (IDN_SNIS[:2] if c.tags.get("family") == "idn" else []):
        ops.append(["hello", variants(n)])
    c.ops = ops
    return c


AUTHSNI_HOSTS = AUTH_HOSTS + [b"a.co", b"a.com.evil.org", b"a.comx", b"xa.com", b"A.COM", b"[::1]:8443", b"[::1"]
AUTHSNI_SNIS = [b"a.com", b"x.a.com", b"b.com", b"a.co", b"a.com.evil.org", b"[::1]", b"", b"com", b"a.com.", b"x.y.a.com", b"A.com"]


def authsni_case(rng, cid):
    """the legacy exact predicate: authorities that are the server name, a prefix of it, an extension of it, in
    capitals, with a port / a non-port suffix"""
    ops = []
    for _ in range(rng.randint(6, 16)):
        sni = rng.choice(AUTHSNI_SNIS)
        if rng.random() < 0.5:
            base = rng.choice([sni, sni.upper(), sni[:-1], sni + b"x", sni + b".evil.org", sni[1:]])
        else:
            base = rng.choice(AUTHSNI_HOSTS)
        ops.append(["authsni", base + rng.choice(AUTH_DECOR), sni])
    return Case(cid, ops, dict(family="authsni"))


def gen_cases(rng, tier):
    n = {"quick": 1600, "thorough": 40000, "search": 12000}.get(tier, 1600)
    out = []
    for i in range(n):
        r = i % 10
        if r < 6:
            out.append(history_case(rng, "h%d" % i, "plain"))
        elif r < 7:
            out.append(history_case(rng, "o%d" % i, "odd"))
        elif r < 8:
            out.append(history_case(rng, ("c%d" if i % 20 < 10 else "i%d") % i, "case" if i % 20 < 10 else "idn"))
        elif r < 9 or i % 20 < 10:
            out.append(auth_case(rng, "a%d" % i))
        else:
            out.append(authsni_case(rng, "s%d" % i))
    return [with_hello(rng, c) if c.tags.get("family") in ("plain", "odd", "case", "idn") else c for c in out]


SNI_REQ_SNIS = [b"a.com", b"www.a.com", b"x.a.com", b"q.a.com", b"b.com", b"w.b.com", b"c.org", b"d.org"]
SNI_REQ_HOSTS = [b"a.com", b"www.a.com", b"x.a.com", b"q.a.com", b"b.com", b"w.b.com", b"c.org", b"d.org", b"A.com", b"X.A.COM", b"y.x.a.com"]
SNI_REQ_DECOR = [b"", b"", b"", b":443", b":8443", b".", b".:443"]


def strict_sni_case(rng, cid):
    """handshake with an SNI, then one request whose Host / :authority is covered, not covered, or differs by
    case / port / trailing dot; H1 and H2; strict binding on (mostly) or off"""
    P = pool()
    ops = [["listen", 1 if rng.random() < 0.75 else 0]]
    for c in rng.sample(P, rng.randint(1, 4)):
        fp = bytes.fromhex(c["fp"])
        if rng.random() < 0.35:
            names = [rng.choice(NAMES + CASE_NAMES + [b"a.com."]) for _ in range(rng.randint(1, 2))]
            ops.append(["add", c["idx"], 1, 0, fp, c["not_after"]] + names)
        else:
            ops.append(["add", c["idx"], 0, 0, fp, c["not_after"]] + [n.encode() for n in c["names"]])
    for _ in range(rng.randint(6, 14)):
        sni = rng.choice(SNI_REQ_SNIS)
        host = rng.choice([sni, sni, rng.choice(SNI_REQ_HOSTS)])
        if rng.random() < 0.2:
            host = host.upper()
        ops.append(["req", sni, rng.choice([1, 2]), host + rng.choice(SNI_REQ_DECOR)])
    return Case(cid, ops, dict(family="strict-sni"))


def extra_stage(tier, rng, work):
    """black-box tier: the same histories through a real worker (command channel) and real TLS handshakes"""
    n = {"quick": 60, "thorough": 1500}.get(tier, 60)
    cases = [c for c in corpus_cases() if not all(op[0] in ("auth", "authsni") for op in c.ops)] + [(with_hello(rng, history_case(rng, "bb%d" % i, ("plain", "case", "idn", "plain")[i % 4])) if i % 3 == 0 else
                         history_case(rng, "bb%d" % i, ("plain", "case", "idn", "plain")[i % 4])) for i in range(n)]
    outs, problems = vlib.run_harness("c17bb", cases, os.path.join(work, "bb"), "release", shards=4, timeout=1200)
    viols, handshakes, missing = [], 0, 0
    for c in cases:
        o = outs.get(c.id)
        if o is None or o["panic"] is not None:
            missing += 1
            viols.append((c, "blackbox-crash", "the black-box driver did not finish the case: %s" % (o["panic"] if o else "no output")))
            continue
        if any(nn.startswith("invalid-case") for nn in o["notes"]):
            missing += 1
            continue
        handshakes += sum(1 for ob in o["obs"] if ob[:1] == ["fp"])
        for (vc, vt) in o["viol"]:
            viols.append((c, vc, vt))
    fails = list(problems)
    if missing > len(cases) // 4:
        fails.append("black-box tier: %d of %d cases could not be run" % (missing, len(cases)))
    # the 421 call site and the https listener glue
    m = {"quick": 40, "thorough": 800}.get(tier, 40)
    scases = [strict_sni_case(rng, "sni%d" % i) for i in range(m)]
    souts, sproblems = vlib.run_harness("c17sni", scases, os.path.join(work, "sni"), "release", shards=4, timeout=1800)
    fails += list(sproblems)
    reqs = rejected = smissing = 0
    for c in scases:
        o = souts.get(c.id)
        if o is None or o["panic"] is not None:
            smissing += 1
            viols.append((c, "blackbox-crash", "the strict-SNI driver did not finish the case: %s" % (o["panic"] if o else "no output")))
            continue
        if any(nn.startswith("invalid-case") for nn in o["notes"]):
            smissing += 1
            continue
        for ob in o["obs"]:
            if ob and isinstance(ob[0], int):
                reqs += 1
                rejected += ob[0] == 421
        for (vc, vt) in o["viol"]:
            viols.append((c, vc, vt))
    if smissing > len(scases) // 4:
        fails.append("strict-SNI tier: %d of %d cases could not be run" % (smissing, len(scases)))
    return dict(failures=fails, viols=viols,
                coverage=dict(blackbox_cases=len(cases) - missing, blackbox_handshakes=handshakes,
                              strict_sni_cases=len(scases) - smissing, strict_sni_requests=reqs, strict_sni_421=rejected))


def bin_for_case(case):
    """a replayed strict-SNI scenario (first op `listen`) goes to the black-box driver that produced it"""
    return "c17sni" if case.ops and case.ops[0][0] == "listen" else HARNESS_BIN


def model_ops(case, out):
    """the model takes no part in a strict-SNI black-box scenario: its observations are handed through"""
    if case.ops and case.ops[0][0] == "listen":
        return [["bbobs"] + list(ob) for ob in out["obs"]]
    return case.ops


def corpus_cases():
    d = os.path.join(vlib.ROOT, "corpus", ID)
    out = []
    if os.path.isdir(d):
        for f in sorted(os.listdir(d)):
            if f.endswith(".case"):
                for c in vlib.parse_cases(open(os.path.join(d, f)).read()):
                    c.id = "k" + c.id
                    out.append(c)
    return out


def nontrivial(case, o):
    if case.ops and case.ops[0][0] == "authsni":
        return len({tuple(ob[:1]) for ob in o["obs"]}) >= 2
    if case.ops and case.ops[0][0] == "auth":
        return len({tuple(ob[:1]) for ob in o["obs"]}) >= 2 and len(case.ops) >= 6
    names = {}
    shared = False
    removals = 0
    outcomes = set()
    for op, ob in zip(case.ops, o["obs"]):
        if op[0] in ("add", "rep") and ob[:1] == ["ok"]:
            ns = op[6:] if op[0] == "add" else op[8:]
            for nme in ns:
                names.setdefault(nme, set()).add(op[4])
                if len(names[nme]) >= 2:
                    shared = True
            if op[0] == "rep":
                removals += 1
        elif op[0] == "del":
            removals += 1
        elif op[0] == "sni":
            outcomes.add(tuple(ob[:2]))
    return shared and removals >= 1 and len(outcomes) >= 2


LEVEL_TEXT = ("Machine-checked proof (Coq 8.16) over an executable model of CertificateResolver (name trie, store, per-name "
              "index) and of the strict-SNI predicate; the model is tied to lib/src/tls.rs and mux/router.rs on every run "
              "by construct pins and by a differential correspondence run of the real resolver on a committed "
              "certificate pool against the extracted model, with the property's own oracle (exact over wildcard, "
              "longest-lived, loaded, covering) evaluated on the implementation.")
LEVEL_NOTE = ("Trusted: Coq kernel; extraction and ocaml/driver.ml for the correspondence only; certificate parsing and "
              "SHA-256 are oracles; the handshake is tied to the resolver by a black-box tier (real worker, real TLS "
              "handshakes) and not by proof; so are the 421 call site of the strict-SNI predicate and the https listener glue "
              "(requests over H1 and H2 against a counting backend, strict binding on and off).")
TECHNIQUE = "Rocq/Coq proof over an executable Gallina model + differential correspondence (extracted OCaml vs real crate)"
