(** C18 — property theorems (statements only; proofs are in C18/Proofs.v). *)
From Coq Require Import List Arith NArith Lia Bool.
From SV Require Import Common.Buf C18.Gen C18.Model.
Import ListNotations.

Theorem be16_length : forall x, length (be16 x) = 2.
Proof. reflexivity. Qed.
