(** CfgState — composition of the proved sections of [diff] over the whole
    section order (C06). *)
From stdpp Require Import gmap strings.
From Coq Require Import NArith Lia.
From SV Require Import CfgState.Model CfgState.Spec CfgState.Proofs CfgState.ReplayProofs CfgState.ReplayBuckets
  CfgState.InvRProofs CfgState.DiffProofs CfgState.DiffApply CfgState.DiffChunks CfgState.DiffClusters CfgState.DiffAbs CfgState.DiffCerts.
Open Scope N_scope.

Section compose.
  Variable fingerprint : N -> option N.
  Variable inames : N -> option (list N).
  Variable hc_valid : N -> bool.
  Variable steps : lkind -> list step.
  Notation replay := (replay fingerprint inames hc_valid steps).
  Notation InvR := (InvR fingerprint inames hc_valid).

  (** Every request of diff(A,B) is accepted by an instance holding A, and the
      instance then holds B (modulo empty buckets) — for A, B satisfying the
      reachable-state invariant, whose backends and tcp/udp frontends agree
      (those three sections are not proved yet). *)
  Theorem apply_diff_sections A B :
    InvR A -> InvR B ->
    backends B = backends A -> tcp_f B = tcp_f A -> udp_f B = udp_f A ->
    exists Z, replay (diff A B) A = (Z, 0%nat) /\ norm Z = norm B.
  Proof.
    intros ([_ HfkA] & _ & _ & _) ([HhcB HfkB] & _ & _ & HcB) Eb Et Eu.
    unfold diff. rewrite Eb, Et, Eu. rewrite diff_backends_self, !diff_tfronts_self. cbn [app].
    pose (P := fun k => piece_removed fingerprint inames hc_valid steps k).
    (* 1-8: removed / added, per kind *)
    rewrite replay_app, (piece_removed fingerprint inames hc_valid steps LTcp (tcp_l A) (tcp_l B) A eq_refl).
    set (s1 := set_l LTcp A _).
    rewrite replay_app, (piece_added fingerprint inames hc_valid steps LTcp (tcp_l A) (tcp_l B) s1 eq_refl).
    set (s2 := set_l LTcp s1 _).
    rewrite replay_app, (piece_removed fingerprint inames hc_valid steps LUdp (udp_l A) (udp_l B) s2 eq_refl).
    set (s3 := set_l LUdp s2 _).
    rewrite replay_app, (piece_added fingerprint inames hc_valid steps LUdp (udp_l A) (udp_l B) s3 eq_refl).
    set (s4 := set_l LUdp s3 _).
    rewrite replay_app, (piece_removed fingerprint inames hc_valid steps LHttp (http_l A) (http_l B) s4 eq_refl).
    set (s5 := set_l LHttp s4 _).
    rewrite replay_app, (piece_added fingerprint inames hc_valid steps LHttp (http_l A) (http_l B) s5 eq_refl).
    set (s6 := set_l LHttp s5 _).
    rewrite replay_app, (piece_removed fingerprint inames hc_valid steps LHttps (https_l A) (https_l B) s6 eq_refl).
    set (s7 := set_l LHttps s6 _).
    rewrite replay_app, (piece_added fingerprint inames hc_valid steps LHttps (https_l A) (https_l B) s7 eq_refl).
    set (s8 := set_l LHttps s7 _).
    (* 9-12: listeners present on both sides *)
    rewrite replay_app, (piece_common fingerprint inames hc_valid steps LTcp (tcp_l A) (tcp_l B) s8 eq_refl).
    set (s9 := set_l LTcp s8 _).
    rewrite replay_app, (piece_common fingerprint inames hc_valid steps LUdp (udp_l A) (udp_l B) s9 eq_refl).
    set (s10 := set_l LUdp s9 _).
    rewrite replay_app, (piece_common fingerprint inames hc_valid steps LHttp (http_l A) (http_l B) s10 eq_refl).
    set (s11 := set_l LHttp s10 _).
    rewrite replay_app, (piece_common fingerprint inames hc_valid steps LHttps (https_l A) (https_l B) s11 eq_refl).
    set (s12 := set_l LHttps s11 _).
    (* 13: clusters *)
    rewrite replay_app, (piece_clusters fingerprint inames hc_valid steps (clusters A) (clusters B) s12 eq_refl HhcB).
    set (s13 := set_clusters s12 _).
    (* 15-16: http / https frontends *)
    rewrite replay_app, (apply_diff_fronts fingerprint inames hc_valid steps false (http_f A) (http_f B) s13 eq_refl
                           (fun k f H => proj1 (HfkA false k f H)) (HfkB false)).
    set (s14 := set_f false s13 _).
    rewrite replay_app, (apply_diff_fronts fingerprint inames hc_valid steps true (https_f A) (https_f B) s14 eq_refl
                           (fun k f H => proj1 (HfkA true k f H)) (HfkB true)).
    set (s15 := set_f true s14 _).
    (* 19: certificates *)
    destruct (piece_certs fingerprint inames hc_valid steps (certs A) (certs B) s15 eq_refl HcB) as (c' & Hrc & Hc').
    rewrite replay_app, Hrc.
    set (s16 := set_certs s15 c').
    (* 20-21: late activation *)
    rewrite replay_app, (piece_late fingerprint inames hc_valid steps LTcp (tcp_l A) (tcp_l B) s16 eq_refl).
    rewrite (piece_late fingerprint inames hc_valid steps LUdp (udp_l A) (udp_l B) s16 eq_refl).
    exists s16. split; [reflexivity|].
    unfold norm. cbn. rewrite Eb, Et, Eu. f_equal. apply cabs_norm. exact Hc'.
  Qed.
End compose.
