//! C03 / C13 black-box tier, HTTP/2 FRONTEND: a real worker with an HTTPS
//! listener (ALPN h2), a scripted raw TLS HTTP/2 client (harness/src/h2bb.rs),
//! and two RECORDING backends on two clusters:
//!   `/`     -> HTTP/1.1 backend that re-parses what it receives with the strict
//!              RFC 9112 reader (harness/src/recbb.rs);
//!   `/h2/`  -> h2c backend that decodes every HEADERS block it receives.
//!
//! One case = one stream on a fresh connection:
//!   op hdr <end_stream> (<name> <value>)*     HEADERS (HPACK literals, any bytes)
//!   op data <len> <end_stream>                DATA
//!   op trl (<name> <value>)*                  trailer HEADERS (END_STREAM)
//!   op go                                     run; one observation:
//!      client <answered|refused|silent> <status|code>  seen <complete requests> <body length> h2seen <n>
//!
//! Oracle here (the model's prediction of the client outcome is compared by
//! props/c03.py): the HTTP/1 backend never receives bytes that are not a
//! well-formed request, never more than one request for one stream, and a request
//! it reads completely has the body length its Content-Length declared (= what
//! sozu understood); C13: every request either backend reads carries one
//! correlation header, one X-Request-Id, truthful X-Forwarded-For / Forwarded
//! (proto=https), X-Forwarded-Proto/Port, no proxy-owned name in trailers, and
//! toward h2c no connection-specific / upper-case field name.
use std::{
    io::{Read, Write},
    net::{SocketAddr, TcpListener},
    sync::{Arc, Mutex},
    time::Duration,
};

#[path = "../h2bb.rs"]
mod h2bb;
#[path = "../recbb.rs"]
mod recbb;
use h2bb::*;
use recbb::*;
use verif_harness::*;

#[derive(Default)]
struct H2Record {
    epoch: usize,
    blocks: Vec<HL>, // decoded HEADERS blocks, in order (request heads and trailers)
    data: usize,
    complete: usize,
    /// per backend stream: (stream id, :path, DATA bytes, END_STREAM seen)
    streams: Vec<(u32, Vec<u8>, usize, bool)>,
}

fn h2c_recording_backend(listener: TcpListener, rec: Arc<Mutex<H2Record>>) {
    for s in listener.incoming() {
        let Ok(mut s) = s else { continue };
        let rec = rec.clone();
        let my_epoch = rec.lock().unwrap().epoch;
        std::thread::spawn(move || {
            let _ = s.set_read_timeout(Some(Duration::from_secs(10)));
            let mut acc: Vec<u8> = vec![];
            let mut buf = [0u8; 65536];
            while acc.len() < 24 {
                match s.read(&mut buf) {
                    Ok(0) | Err(_) => return,
                    Ok(n) => acc.extend_from_slice(&buf[..n]),
                }
            }
            acc.drain(..24);
            let _ = s.write_all(&settings(&[]));
            let _ = s.write_all(&frame(T_WU, 0, 0, &(1u32 << 24).to_be_bytes()));
            let mut dec = loona_hpack::Decoder::new();
            let mut pending: Vec<u8> = vec![];
            loop {
                let (frames, used) = parse_frames(&acc);
                acc.drain(..used);
                for f in frames {
                    match f.t {
                        T_SETTINGS if f.flags & 1 == 0 => {
                            let _ = s.write_all(&frame(T_SETTINGS, 1, 0, &[]));
                        }
                        T_PING if f.flags & 1 == 0 => {
                            let _ = s.write_all(&frame(T_PING, 1, 0, &f.payload));
                        }
                        T_HEADERS | T_CONT => {
                            pending.extend_from_slice(&f.payload);
                            if f.flags & 4 != 0 {
                                let mut l: HL = vec![];
                                let _ = dec.decode_with_cb(&pending, |k, v| l.push((k.to_vec(), v.to_vec())));
                                pending.clear();
                                {
                                    let mut g = rec.lock().unwrap();
                                    if g.epoch == my_epoch {
                                        if !g.streams.iter().any(|x| x.0 == f.sid) {
                                            let path = l.iter().find(|(k, _)| k == b":path").map(|(_, v)| v.clone()).unwrap_or_default();
                                            g.streams.push((f.sid, path, 0, false));
                                        }
                                        g.blocks.push(l);
                                    }
                                }
                            }
                            if f.t == T_HEADERS && f.flags & 1 != 0 {
                                {
                                    let mut g = rec.lock().unwrap();
                                    if g.epoch == my_epoch {
                                        g.complete += 1;
                                        if let Some(x) = g.streams.iter_mut().find(|x| x.0 == f.sid) {
                                            x.3 = true;
                                        }
                                    }
                                }
                                let mut resp = frame(T_HEADERS, 4, f.sid, &[0x88]);
                                resp.extend(frame(T_DATA, 1, f.sid, b"h2pong"));
                                let _ = s.write_all(&resp);
                            }
                        }
                        T_DATA => {
                            {
                                let mut g = rec.lock().unwrap();
                                if g.epoch == my_epoch {
                                    g.data += f.payload.len();
                                    if let Some(x) = g.streams.iter_mut().find(|x| x.0 == f.sid) {
                                        x.2 += f.payload.len();
                                    }
                                }
                            }
                            if !f.payload.is_empty() {
                                let inc = (f.payload.len() as u32).to_be_bytes();
                                let _ = s.write_all(&frame(T_WU, 0, 0, &inc));
                                if f.flags & 1 == 0 {
                                    let _ = s.write_all(&frame(T_WU, 0, f.sid, &inc));
                                }
                            }
                            if f.flags & 1 != 0 {
                                {
                                    let mut g = rec.lock().unwrap();
                                    if g.epoch == my_epoch {
                                        g.complete += 1;
                                        if let Some(x) = g.streams.iter_mut().find(|x| x.0 == f.sid) {
                                            x.3 = true;
                                        }
                                    }
                                }
                                let mut resp = frame(T_HEADERS, 4, f.sid, &[0x88]);
                                resp.extend(frame(T_DATA, 1, f.sid, b"h2pong"));
                                let _ = s.write_all(&resp);
                            }
                        }
                        T_GOAWAY => return,
                        _ => {}
                    }
                }
                match s.read(&mut buf) {
                    Ok(0) | Err(_) => return,
                    Ok(n) => acc.extend_from_slice(&buf[..n]),
                }
            }
        });
    }
}

fn block_of(hs: &HL) -> Vec<u8> {
    let mut enc = loona_hpack::Encoder::new();
    let mut b = vec![];
    for (k, v) in hs {
        enc.encode_header_into((&k[..], &v[..]), &mut b).unwrap();
    }
    b
}

fn pairs(a: &[Tok]) -> HL {
    a.chunks(2).filter(|c| c.len() == 2).map(|c| (c[0].b().to_vec(), c[1].b().to_vec())).collect()
}

const CONN_SPECIFIC: [&[u8]; 8] = [b"connection", b"proxy-connection", b"transfer-encoding", b"upgrade", b"keep-alive", b"host", b"http2-settings", b"trailer"];

fn judge_h2c(r: &H2Record, nstreams: usize, out: &mut Out) {
    for l in r.blocks.iter() {
        // a block with pseudo-headers is a request head, one without is a trailer section
        let i = if l.iter().any(|(k, _)| k.starts_with(b":")) { 0 } else { 1 };
        for (k, v) in l {
            if k.iter().any(|c| c.is_ascii_uppercase()) {
                out.viol("bb-h2-uppercase", &String::from_utf8_lossy(k));
            }
            if CONN_SPECIFIC.iter().any(|n| k == n) || (k == b"te" && !v.eq_ignore_ascii_case(b"trailers")) {
                out.viol("bb-h2-connection-specific", &String::from_utf8_lossy(k));
            }
            if k.iter().chain(v.iter()).any(|c| *c == b'\r' || *c == b'\n' || *c == 0) {
                out.viol("bb-h2-crlf", &String::from_utf8_lossy(k));
            }
        }
        let vals = |n: &[u8]| -> Vec<&Vec<u8>> { l.iter().filter(|(k, _)| k == n).map(|(_, v)| v).collect() };
        if i == 0 {
            if vals(b"sozu-id").len() != 1 || vals(b"x-request-id").len() != 1 {
                out.viol("bb-h2-ids", &format!("{} correlation headers, {} x-request-id", vals(b"sozu-id").len(), vals(b"x-request-id").len()));
            }
            let le = |v: &Vec<u8>| -> Vec<u8> { trim_ows(v.rsplit(|c| *c == b',').next().unwrap_or(v)).to_vec() };
            if vals(b"x-forwarded-for").last().map(|v| le(v)) != Some(b"127.0.0.1".to_vec()) {
                out.viol("bb-h2-xff", "last x-forwarded-for element is not the client address");
            }
            match vals(b"forwarded").last().map(|v| le(v)) {
                Some(e) if e.starts_with(b"proto=https;for=\"127.0.0.1:") && e.ends_with(b"\";by=127.0.0.1") => {}
                _ => out.viol("bb-h2-forwarded", "last forwarded element is not sozu's"),
            }
            let np = l.iter().take_while(|(k, _)| k.starts_with(b":")).count();
            if l[np..].iter().any(|(k, _)| k.starts_with(b":")) || np != 4 {
                out.viol("bb-h2-pseudo", "pseudo-headers toward the backend are not exactly the four, first");
            }
        } else {
            for (k, _) in l {
                if OWNED.iter().any(|n| k == n) {
                    out.viol("bb-trailer-spoof", &format!("h2c trailer {} reached the backend", String::from_utf8_lossy(k)));
                }
            }
        }
    }
    if r.streams.len() > nstreams {
        out.viol("bb-h2-count", &format!("{} requests reached the h2c backend for {} stream(s)", r.streams.len(), nstreams));
    }
}

fn main() {
    let _ = sozu_command_lib::logging::setup_logging("file:///dev/null", false, None, None, None, "error", "C03H2BB");
    let path = std::env::args().nth(1).expect("usage: c03h2bb <cases>");
    let cases = read_cases(&path);

    let back_l = TcpListener::bind("127.0.0.1:0").unwrap();
    let back = back_l.local_addr().unwrap();
    let rec = Arc::new(Mutex::new(Record::default()));
    {
        let rec = rec.clone();
        std::thread::spawn(move || backend(back_l, rec));
    }
    let back2_l = TcpListener::bind("127.0.0.1:0").unwrap();
    let back2 = back2_l.local_addr().unwrap();
    let rec2 = Arc::new(Mutex::new(H2Record::default()));
    {
        let rec2 = rec2.clone();
        std::thread::spawn(move || h2c_recording_backend(back2_l, rec2));
    }
    let front: SocketAddr = format!("127.0.0.1:{}", free_port()).parse().unwrap();
    let mut w = start_worker();
    configure_https(&mut w, https_listener_config(front), front, back, false);
    add_h2_cluster(&mut w, front, back2, "/h2/");
    let mut ready = false;
    for _ in 0..50 {
        if probe(front) {
            ready = true;
            break;
        }
        std::thread::sleep(Duration::from_millis(100));
    }

    let mut outw: Box<dyn Write> = match std::env::var_os("VERIF_OUT") {
        Some(p) => Box::new(std::io::BufWriter::new(std::fs::File::create(p).expect("create $VERIF_OUT"))),
        None => Box::new(std::io::stdout()),
    };
    for case in &cases {
        let mut out = Out::default();
        let mut frames: Vec<u8> = vec![];
        let mut phases: Vec<Phase> = vec![];
        let mut sid: u32 = 1;
        let mut sids: Vec<u32> = vec![];
        if !ready {
            out.note("invalid-case: the worker never answered the probe");
        }
        for op in &case.ops {
            let a = &op.args;
            match op.name.as_str() {
                "sid" => {
                    sid = a[0].n() as u32;
                    out.obs(&[]);
                }
                "hdr" => {
                    let es = a[0].n() == 1;
                    if !sids.contains(&sid) {
                        sids.push(sid);
                    }
                    frames.extend(frame(T_HEADERS, if es { 0x5 } else { 0x4 }, sid, &block_of(&pairs(&a[1..]))));
                    out.obs(&[]);
                }
                "data" => {
                    let n = a[0].n() as usize;
                    frames.extend(frame(T_DATA, if a[1].n() == 1 { 1 } else { 0 }, sid, &vec![b'x'; n]));
                    out.obs(&[]);
                }
                "trl" => {
                    // a fresh encoder is fine: no dynamic-table references are emitted for literals never indexed before
                    frames.extend(frame(T_HEADERS, 0x5, sid, &block_of_cont(&pairs(a))));
                    out.obs(&[]);
                }
                // phases: what was queued so far is sent, then the client waits for the end of the answer on a
                // stream (`await <sid>`) or for a while (`wait <ms>`) before going on
                "await" | "wait" => {
                    phases.push(Phase::Send(std::mem::take(&mut frames)));
                    phases.push(if op.name == "await" { Phase::Await(a[0].n() as u32) } else { Phase::Wait(a[0].n() as u64) });
                    out.obs(&[]);
                }
                "rst" => {
                    frames.extend(frame(T_RST, 0, sid, &(a[0].n() as u32).to_be_bytes()));
                    out.obs(&[]);
                }
                "go" => {
                    phases.push(Phase::Send(std::mem::take(&mut frames)));
                    new_case(&rec);
                    {
                        let mut g = rec2.lock().unwrap();
                        let e = g.epoch + 1;
                        *g = H2Record::default();
                        g.epoch = e;
                    }
                    let (outcomes, goaway) = run_conn(front, &phases, &sids);
                    std::thread::sleep(Duration::from_millis(40));
                    let r = take_case(&rec);
                    let r2 = {
                        let mut g = rec2.lock().unwrap();
                        let e = g.epoch;
                        let r = std::mem::take(&mut *g);
                        g.epoch = e;
                        r
                    };
                    let mut t = vec![ts("client"), tn(outcomes.len())];
                    for (sd, kind, code) in &outcomes {
                        t.push(tn(*sd));
                        t.push(ts(kind));
                        t.push(tn(*code));
                    }
                    t.push(ts("goaway"));
                    t.push(tbool(goaway));
                    t.push(ts("seen"));
                    t.push(tn(r.requests.len()));
                    for q in &r.requests {
                        t.push(tb(&q.target));
                        t.push(tn(q.body_len));
                    }
                    t.push(ts("h2seen"));
                    t.push(tn(r2.streams.len()));
                    for x in &r2.streams {
                        t.push(tb(&x.1));
                        t.push(tn(x.2));
                        t.push(tbool(x.3));
                    }
                    out.obs(&t);
                    // ---- oracle
                    judge_proto(&r, front, &[], b"https", false, &mut out);
                    if r.requests.len() > sids.len() {
                        out.viol("bb-h2-count", &format!("{} requests reached the HTTP/1.1 backend for {} stream(s)", r.requests.len(), sids.len()));
                    }
                    let mut targets: Vec<&Vec<u8>> = r.requests.iter().map(|q| &q.target).collect();
                    targets.sort();
                    let nt = targets.len();
                    targets.dedup();
                    if targets.len() != nt {
                        out.viol("bb-h2-count", "the HTTP/1.1 backend read two requests for the same stream (same target)");
                    }
                    for q in &r.requests {
                        let cls = values(&q.headers, b"content-length");
                        if cls.len() > 1 {
                            out.viol("bb-h2-dup-cl", "two Content-Length lines reached the backend");
                        }
                    }
                    judge_h2c(&r2, sids.len(), &mut out);
                    frames.clear();
                    phases.clear();
                    sids.clear();
                    sid = 1;
                }
                _ => out.obs(&[ts("badop")]),
            }
        }
        writeln!(outw, "case {}", case.id).unwrap();
        for l in &out.lines {
            writeln!(outw, "{l}").unwrap();
        }
        writeln!(outw, "end").unwrap();
    }
    outw.flush().unwrap();
    std::process::exit(0);
}

/// trailer block: encoded with its own encoder but WITHOUT indexing side effects that
/// would desynchronise sozu's decoder (loona's encoder only emits literals without
/// indexing and static-table references).
fn block_of_cont(hs: &HL) -> Vec<u8> {
    block_of(hs)
}

enum Phase {
    Send(Vec<u8>),
    Await(u32),
    Wait(u64),
}

/// per stream: ("answered", 200) | ("refused", status or h2 error code) | ("silent", 0); and whether a GOAWAY was seen
fn run_conn(front: SocketAddr, phases: &[Phase], sids: &[u32]) -> (Vec<(u32, &'static str, u32)>, bool) {
    let silent = |c: u32| -> (Vec<(u32, &'static str, u32)>, bool) { (sids.iter().map(|s| (*s, "silent", c)).collect(), false) };
    let Some(mut p) = Peer::connect(front) else { return silent(1) };
    if !p.handshake(&[]) {
        return silent(2);
    }
    let mut fr: Vec<Fr> = vec![];
    for ph in phases {
        match ph {
            Phase::Send(b) => {
                if !b.is_empty() {
                    p.send(b);
                }
            }
            Phase::Wait(ms) => std::thread::sleep(Duration::from_millis(*ms)),
            Phase::Await(sid) => {
                // the end of the answer on that stream: END_STREAM on HEADERS / DATA, RST_STREAM, or GOAWAY
                let got = p.read_until(Duration::from_millis(3000), |f| {
                    f.iter().any(|x| x.t == T_GOAWAY || (x.sid == *sid && (x.t == T_RST || ((x.t == T_HEADERS || x.t == T_DATA) && x.flags & 1 == 1))))
                });
                fr.extend(got);
            }
        }
    }
    let want: Vec<u32> = sids.iter().copied().filter(|s| !fr.iter().any(|x| x.sid == *s && (x.t == T_HEADERS || x.t == T_RST))).collect();
    if !fr.iter().any(|x| x.t == T_GOAWAY) {
        let got = p.read_until(Duration::from_millis(5000), |f| {
            f.iter().any(|x| x.t == T_GOAWAY) || want.iter().all(|s| f.iter().any(|x| x.sid == *s && (x.t == T_HEADERS || x.t == T_RST)))
        });
        fr.extend(got);
    }
    let goaway = fr.iter().any(|x| x.t == T_GOAWAY);
    let mut dec = loona_hpack::Decoder::new();
    let mut out = vec![];
    // decode response HEADERS in arrival order (one HPACK context per connection)
    let mut status: Vec<(u32, u32)> = vec![];
    for x in &fr {
        if x.t == T_HEADERS {
            let mut st = 0u32;
            let _ = dec.decode_with_cb(&x.payload, |k, v| {
                if &k[..] == b":status" {
                    st = std::str::from_utf8(&v).ok().and_then(|s| s.parse().ok()).unwrap_or(0);
                }
            });
            if !status.iter().any(|(s, _)| *s == x.sid) {
                status.push((x.sid, st));
            }
        }
    }
    for s in sids {
        let first = fr.iter().find(|x| x.sid == *s && (x.t == T_HEADERS || x.t == T_RST));
        match first {
            Some(x) if x.t == T_HEADERS => {
                let st = status.iter().find(|(q, _)| q == s).map(|(_, v)| *v).unwrap_or(0);
                out.push((*s, if st == 200 { "answered" } else { "refused" }, st));
            }
            Some(x) => out.push((*s, "refused", x.code().unwrap_or(0))),
            None => {
                if goaway || p.closed {
                    let code = fr.iter().find(|x| x.t == T_GOAWAY).and_then(|x| x.code()).unwrap_or(999);
                    out.push((*s, "refused", code));
                } else {
                    out.push((*s, "silent", 0));
                }
            }
        }
    }
    (out, goaway)
}
