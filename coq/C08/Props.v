(** C08 — property theorems (proofs are in C08/Proofs.v). *)
From Coq Require Import List String Bool Arith.
From SV Require Import C08.Base C08.Gen C08.Model C08.Proofs.
Import ListNotations.
Open Scope string_scope.

(** Whatever its type — worker verb, proxy verb, listener verb, a verb meant for
    the main process, or no request_type at all — a request gets exactly one
    final answer from the control flow read_channel_messages_and_notify ->
    notify -> notify_proxys, as it is in the source today. *)
Theorem one_final_answer : forall name, answers_of name = 1.
Proof. exact answers_of_one. Qed.

(** Over any sequence of requests with distinct ids, each id is answered
    exactly once, in request order, and no other id ever appears. *)
Theorem one_final_answer_per_id : forall reqs id,
    NoDup (map fst reqs) ->
    count_occ Nat.eq_dec (stream reqs) id = if in_dec Nat.eq_dec id (map fst reqs) then 1 else 0.
Proof.
  intros reqs id Hnd. rewrite stream_is_ids. destruct (in_dec Nat.eq_dec id (map fst reqs)) as [Hin|Hnin].
  - apply count_occ_map_fst; assumption.
  - apply count_occ_not_In. exact Hnin.
Qed.

Theorem answers_in_request_order : forall reqs, stream reqs = map fst reqs.
Proof. exact stream_is_ids. Qed.

Example one_final_answer_nonvacuous :
  stream [(1, "AddCluster"); (2, "RemoveListener"); (3, "QueryClusterById"); (4, "ListWorkers"); (5, "NoSuchVerb")]
  = [1; 2; 3; 4; 5] /\ List.length arms_table >= 40.
Proof. vm_compute. split; [reflexivity|]. repeat constructor. Qed.
