(** C19 — theorems about the socket shell composed with the manager
    (model: [C19/Shell.v], lemmas: [C19/ShellProofs.v]).

    [shell_step hash true sh now env sched ev] is one event of
    [UdpListenerSession] (a client datagram, a datagram on an upstream socket, a
    writable event, the timer, [close_all_flows], a configuration push) including
    the complete [drain_outputs] that follows it.  [env] and [sched] are what the
    load balancer and the kernel answer during that event (resolved backend or
    none, connect success, one outcome per send attempt): all theorems quantify
    over them.  [true] selects the two-key [on_close_flow] of fix d875ae5.

    A state is AT REST when the manager's output queue has been drained
    ([sh_q = []]).  [drain_outputs_terminates]: the fuel [drain_fuel] gives the
    drain loop always suffices, so every event ends at rest and [sreach] -- the
    states reachable from a fresh session by any events -- are all at rest. *)
From Coq Require Import List NArith Bool Arith Lia.
From SV Require Import Common.Slab C19.Model C19.Proofs C19.Shell C19.ShellProofs C19.ShellSticky C19.Routing.
Import ListNotations.

Inductive sreach (hash : bool -> addr -> N) : shell -> Prop :=
| sr_new c max_flows max_rx a : sreach hash (shell_new (mgr_new c max_flows max_rx) a)
| sr_step sh now e sched ev :
    sreach hash sh -> sreach hash (fst (shell_step hash true sh now e sched ev)).

Lemma sreach_GQ hash sh : sreach hash sh -> GQ sh /\ sh_q sh = [].
Proof.
  induction 1 as [c mf mrx a|sh now e sched ev Hr (HG & Hq)].
  - split; [apply GQ_new | reflexivity].
  - split; [apply GQ_step; assumption | apply shell_step_at_rest; exact Hq].
Qed.

(** [drain_outputs] always runs to completion: whatever is queued, whatever the load
    balancer and the kernel answer, the loop empties the manager's queue within the
    fuel it is given (a SelectBackend adds at most one resolution or abort, an
    OpenUpstream at most one abort, nothing else adds anything) *)
Theorem drain_outputs_terminates :
  forall hash tk sh sched now e, sh_q (fst (fst (full_drain hash tk sh sched now e))) = [].
Proof. exact full_drain_completes. Qed.

(** [upstream_sockets_balance]: under EVERY handler, whatever the manager, the
    load balancer and the kernel do (no reachability needed): sockets opened =
    sockets closed + sockets open, tokens are distinct and occupy their session
    slots. *)
Theorem upstream_sockets_balance :
  forall hash tk sh now e sched ev, BI sh -> BI (fst (shell_step hash tk sh now e sched ev)).
Proof. intros. apply BI_step. assumption. Qed.

(** [e2e_nat_return_agrees]: at rest, the NAT-return map is injective both ways
    (distinct tokens, distinct flows), every upstream socket belongs to a live,
    established flow of exactly the incarnation it was opened for, and every
    shadow flow-table entry points at such a socket (nothing stale). *)
Theorem e2e_nat_return_agrees :
  forall hash sh, sreach hash sh ->
    NoDup (map s_tok (sh_socks sh)) /\ NoDup (flows_of (sh_socks sh)) /\
    (forall s, In s (sh_socks sh) ->
       exists f, sget (m_flows (sh_mgr sh)) (s_flow s) = Some f /\ f_inc f = s_inc s /\
                 f_backend_addr f = Some (s_backend s)) /\
    (forall k id, tget (sh_key2f sh) k = Some id ->
       exists s, In s (sh_socks sh) /\ s_flow s = id /\ s_key s = Some k) /\
    sh_opened sh = sh_closed sh + length (sh_socks sh).
Proof. intros hash sh H. destruct (sreach_GQ hash sh H). apply quiescent_sockets; assumption. Qed.

(** [e2e_sticky], socket level: the (connected) upstream socket of a flow points at
    exactly the backend address the manager holds for that flow -- which, by [sticky]
    and [sticky_destination_is_the_resolved_address] of Props.v, is the one address
    every datagram of the incarnation is addressed to -- and a flow has one socket.
    (That [on_send_to_backend] picks the socket of the datagram's own flow through
    [in_flight_flow] / the shadow table is covered by the correspondence run only:
    the socket each delivered datagram arrived on is compared with the model.) *)
Theorem e2e_sticky_socket_is_connected_to_the_flows_backend :
  forall hash sh s1 s2, sreach hash sh -> In s1 (sh_socks sh) -> In s2 (sh_socks sh) ->
    (exists f, sget (m_flows (sh_mgr sh)) (s_flow s1) = Some f /\ f_backend_addr f = Some (s_backend s1)) /\
    (s_flow s1 = s_flow s2 -> s1 = s2).
Proof.
  intros hash sh s1 s2 H H1 H2. destruct (sreach_GQ hash sh H) as (HG & Hq).
  destruct (quiescent_sockets sh HG Hq) as (_ & Hfl & Hlive & _). split.
  - destruct (Hlive s1 H1) as (f & Hf & _ & Hb). eauto.
  - intros E. eapply flow_unique; eauto.
Qed.

Lemma sreach_GQ2 hash sh : sreach hash sh -> GQ2 sh /\ sh_q sh = [].
Proof.
  induction 1 as [c mf mrx a|sh now e sched ev Hr (HG & Hq)].
  - split; [apply GQ2_new | reflexivity].
  - split; [apply GQ2_step; assumption | apply shell_step_at_rest; exact Hq].
Qed.

(** [e2e_sticky], socket selection.  At rest, take a client source [src] that the
    manager's table routes (under the current affinity mode) to an established flow
    [id] of incarnation [f_inc f] with backend [b].  Then that flow HAS an upstream
    socket, opened for that very incarnation, connected to [b], whose shadow key is the
    key of [src]; and the shell's shadow table can map the key of [src] to no other
    flow.  Hence [on_send_to_backend] -- which, for a datagram of an established flow,
    looks the flow up under [client_key src] -- either finds exactly this socket or
    nothing: it never writes the datagram to another flow's socket. *)
Theorem e2e_sticky_never_another_flows_socket :
  forall hash sh src id f b, sreach hash sh ->
    tget (m_table (sh_mgr sh)) (client_key sh src) = Some id ->
    sget (m_flows (sh_mgr sh)) id = Some f -> f_backend_addr f = Some b ->
    (exists s, In s (sh_socks sh) /\ s_flow s = id /\ s_inc s = f_inc f /\ s_backend s = b /\
               s_key s = Some (client_key sh src)) /\
    (forall id', tget (sh_key2f sh) (client_key sh src) = Some id' -> id' = id).
Proof.
  intros hash sh src id f b H Ht Hf Hb. destruct (sreach_GQ2 hash sh H) as ([HG HN HO] & Hq).
  pose proof (g_inv _ HG) as HI.
  destruct (inv_tab_slab _ HI _ _ Ht) as (f0 & Hf0 & Hk). assert (f0 = f) as -> by congruence.
  split.
  - destruct (in_dec Nat.eq_dec id (flows_of (sh_socks sh))) as [Hin|Hnin].
    + unfold flows_of in Hin. apply in_map_iff in Hin. destruct Hin as (s & Es & Hs).
      exists s. split; [exact Hs|]. split; [exact Es|].
      destruct (g_sock _ HG s Hs) as [(g & Hg & Hi & Hgb)|Hc]; [|rewrite Hq in Hc; destruct Hc].
      assert (g = f) as -> by (rewrite Es, Hf in Hg; congruence).
      split; [symmetry; exact Hi|]. split; [congruence|].
      rewrite <- Hk. apply (HO s f Hs); [rewrite Es; exact Hf | exact Hi].
    + exfalso. rewrite Hq in HN. destruct (HN _ _ Hf Hnin) as (_ & [(_ & l & cl & k & [])|(l & a & [])]).
  - intros id' Hk2. destruct (g_k _ HG _ _ Hk2) as (s' & Hs' & Ef' & Ek').
    destruct (g_sock _ HG s' Hs') as [(g & Hg & Hi & _)|Hc]; [|rewrite Hq in Hc; destruct Hc].
    pose proof (HO s' g Hs' Hg Hi) as Ho. rewrite Ek' in Ho.
    assert (own_key g = client_key sh src) as Eo by congruence.
    pose proof (inv_slab_tab _ HI _ _ Hg) as Ht'. rewrite Eo, Ht in Ht'. congruence.
Qed.

(** [e2e_isolated]: a datagram read from the upstream socket [tok] is handed to the
    manager for the flow that socket was opened for; what the manager then sends to
    a client is exactly that datagram, for the socket's own incarnation, to that
    incarnation's client.  (With [isolated_replies_return_to_the_creating_client] of
    Props.v: the client whose datagram created the flow.) *)
Theorem e2e_isolated :
  forall hash sh now tok s p i d p', sreach hash sh ->
    sock_of_tok (sh_socks sh) tok = Some s ->
    In (Some i, SendToClient d p') (snd (step hash (sh_mgr sh) now (IBackend (s_flow s) p))) ->
    i = s_inc s /\ p' = p /\
    exists f, sget (m_flows (sh_mgr sh)) (s_flow s) = Some f /\ f_inc f = s_inc s /\ f_client f = d.
Proof. intros hash sh now tok s p i d p' H. destruct (sreach_GQ hash sh H). apply nat_return; assumption. Qed.

(** [close_all_flows] closes every upstream socket: none is open, opened = closed *)
Theorem close_all_flows_leaks_no_socket :
  forall hash sh now e sched, sreach hash sh ->
    sh_socks (fst (shell_step hash true sh now e sched ECloseAll)) = [] /\
    sh_opened (fst (shell_step hash true sh now e sched ECloseAll)) =
    sh_closed (fst (shell_step hash true sh now e sched ECloseAll)).
Proof.
  intros hash sh now e sched H. destruct (sreach_GQ hash sh H) as (HG & Hq).
  apply close_all_no_socket; auto. apply shell_step_at_rest. exact Hq.
Qed.

(** The configuration path (udp.rs [apply_cluster] / [cluster_config_for] / [apply_udp_knobs]): an AddCluster
    WITHOUT a udp block clears whatever block an earlier AddCluster cached: the manager gets the listener's
    timeouts and the proto defaults (SOURCE_IP affinity, no caps, no PROXY header). *)
Theorem reconfigure_without_udp_block_restores_defaults :
  forall cluster front back old,
    cluster_config_for cluster front back (apply_cluster_cache old None) =
    mkcfg cluster false 0 0 front back false false.
Proof. reflexivity. Qed.

(** ... and the flows admitted after a SetCluster are keyed and configured by THAT configuration (flows admitted
    before keep theirs: [Inv], clause own key). *)
Theorem affinity_follows_current_config :
  forall hash m now c src p, Inv m ->
    let m1 := fst (step hash m now (ISetCluster c)) in
    (N.of_nat (length p) <= m_max_rx m1)%N -> c_cluster c <> [] -> p <> [] ->
    tget (m_table m1) (key_of src (c_with_port c)) = None ->
    m_draining m1 = false -> (N.of_nat (slen (m_flows m1)) < m_max_flows m1)%N ->
    exists f, sget (m_flows (fst (step hash m1 now (IClient src p)))) (s_next (m_flows m1)) = Some f /\
              f_cfg f = c /\ own_key f = key_of src (c_with_port c).
Proof.
  intros hash m now c src p HI m1 Hlen Hcl Hp Ht Hd Hcap.
  assert (Inv m1) as HI1 by (apply step_inv; exact HI).
  assert (m_cluster m1 = c) as Ec by reflexivity.
  destruct (admission_buffers hash m1 now src p HI1 Hlen) as (Hf & _); auto; try (rewrite Ec; assumption).
  exists (admit_flow m1 src p now). split; [exact Hf|]. split; reflexivity.
Qed.

(* ------------------------------------------------------------------ *)
(** The routing lifecycle of the listener ([C19/Routing.v]: AddUdpFrontend / RemoveUdpFrontend / AddCluster /
    RemoveCluster / UpdateUdpListener in udp.rs).

    A manager whose configuration names no cluster forwards NOTHING from clients, not even on a live flow (the
    check comes before the table lookup, manager.rs [on_client_datagram]): the datagram is dropped, the state is
    untouched, no backend is selected, no socket is asked for. *)
Theorem unrouted_listener_forwards_nothing :
  forall hash m now src p, c_cluster (m_cluster m) = [] ->
    fst (step hash m now (IClient src p)) = m /\
    exists r, snd (step hash m now (IClient src p)) = drop_datagram r.
Proof.
  intros hash m now src p H. unfold step, on_client_datagram.
  destruct (N.ltb (m_max_rx m) (N.of_nat (length p))); [split; [reflexivity | eexists; reflexivity]|].
  rewrite H. split; [reflexivity | eexists; reflexivity].
Qed.

(** RemoveUdpFrontend, and RemoveCluster of the cluster the listener routes to, leave the manager in that state
    whatever it was before, and keep every live flow (they idle out; replies still return). *)
Theorem remove_front_unroutes_and_spares_flows :
  forall hash p m now,
    let m' := feed hash m now (snd (px_remove_front p)) in
    c_cluster (m_cluster m') = [] /\ m_flows m' = m_flows m /\ m_table m' = m_table m /\
    px_cluster (fst (px_remove_front p)) = None /\ px_cache (fst (px_remove_front p)) = px_cache p.
Proof. intros. repeat split. Qed.

Theorem remove_cluster_unroutes_and_forgets_knobs :
  forall hash p c m now, px_route p = Some c ->
    let m' := feed hash m now (snd (px_remove_cluster p c)) in
    c_cluster (m_cluster m') = [] /\ m_flows m' = m_flows m /\ m_table m' = m_table m /\
    cache_get (px_cache (fst (px_remove_cluster p c))) c = None.
Proof.
  intros hash p c m now Hr. unfold px_remove_cluster. rewrite Hr, cid_eqb_refl. simpl.
  repeat split. rewrite cache_get_remove, cid_eqb_refl. reflexivity.
Qed.

(** AddCluster and AddUdpFrontend arrive in either order: on a listener without a frontend both orders leave
    the same proxy state and the same manager configuration -- the cluster's own block, the listener's timeouts. *)
Theorem cluster_and_frontend_commute :
  forall hash p c u m now, px_cluster p = None -> px_route p = None ->
    let '(p1, i1) := px_add_cluster p c u in let '(p2, i2) := px_add_front p1 c in
    let '(q1, j1) := px_add_front p c in let '(q2, j2) := px_add_cluster q1 c u in
    p2 = q2 /\ feed hash m now (i1 ++ i2) = feed hash m now (j1 ++ j2) /\
    m_cluster (feed hash m now (i1 ++ i2)) =
      cluster_config_for c (px_front p * 1000) (px_back p * 1000) u.
Proof.
  intros hash p c u m now Hc Hr. unfold px_add_cluster, px_add_front. rewrite Hr. simpl.
  rewrite cid_eqb_refl. simpl. unfold px_cfg. simpl. rewrite cache_get_set, cid_eqb_refl.
  repeat split.
Qed.

(** RemoveUdpFrontend then AddUdpFrontend of the same cluster brings back the configuration the manager had
    (the cached block survives the removal of the frontend). *)
Theorem frontend_round_trip_restores_config :
  forall hash p c m now, px_cluster p = Some c ->
    let '(p1, i1) := px_remove_front p in let '(p2, i2) := px_add_front p1 c in
    m_cluster (feed hash m now (i1 ++ i2)) = px_cfg p.
Proof. intros hash p c m now Hc. unfold px_cfg. simpl. rewrite Hc. reflexivity. Qed.

(** UpdateUdpListener: the three values committed are the patched timeouts (in the configuration new flows
    capture), the effective cap, and the rx size clamped to the global buffer size; every live flow, the table
    and the armed timer are left alone (existing flows keep the configuration they captured). *)
Theorem listener_patch_commits_and_spares_live_flows :
  forall hash p pa m now,
    let p' := fst (px_update_listener p pa) in
    let m' := feed hash m now (snd (px_update_listener p pa)) in
    m_flows m' = m_flows m /\ m_table m' = m_table m /\ m_armed m' = m_armed m /\
    m_cluster m' = px_cfg p' /\
    c_front (m_cluster m') = (match pa_front pa with Some v => v | None => px_front p end * 1000)%N /\
    m_max_flows m' = effective_max_flows (px_max_flows p') (px_max_conn p) (px_auto p) /\
    m_max_rx m' = px_max_rx p' /\
    (px_buffer_size p <> 0%N -> (m_max_rx m' <= px_buffer_size p)%N).
Proof.
  intros hash p pa m now p' m'. subst p' m'. unfold px_update_listener. simpl.
  repeat split.
  - unfold px_cfg, cluster_config_for. simpl. destruct (cache_get _ _); reflexivity.
  - unfold clamp_max_rx. destruct (N.eqb (px_buffer_size p) 0); [reflexivity|]. lia.
  - intros Hb. unfold clamp_max_rx. apply N.eqb_neq in Hb. rewrite Hb. lia.
Qed.

Theorem effective_max_flows_spec :
  forall configured headroom auto,
    (configured <> 0 -> effective_max_flows configured headroom auto = configured)%N /\
    (configured = 0 -> headroom <> 0 ->
       1 <= effective_max_flows configured headroom auto <= N.max headroom 1)%N.
Proof.
  intros c h a. unfold effective_max_flows. split.
  - intros H. apply N.eqb_neq in H. rewrite H. reflexivity.
  - intros -> H. apply N.eqb_neq in H. simpl. rewrite H. lia.
Qed.

(** as the code is: RemoveCluster leaves [listener.cluster_id], so a later UpdateUdpListener routes the
    listener to the removed cluster's name again, with the default knobs *)
Theorem listener_patch_after_remove_cluster_routes_again :
  forall hash p c pa m now, px_cluster p = Some c -> px_route p = Some c ->
    let '(p1, i1) := px_remove_cluster p c in let '(p2, i2) := px_update_listener p1 pa in
    m_cluster (feed hash m now (i1 ++ i2)) =
      mkcfg c false 0 0 (px_front p2 * 1000) (px_back p2 * 1000) false false.
Proof.
  intros hash p c pa m now Hc Hr. unfold px_remove_cluster, px_update_listener. rewrite Hr, cid_eqb_refl. simpl.
  unfold px_cfg. simpl. rewrite Hc, cache_get_remove, cid_eqb_refl. reflexivity.
Qed.

Example routing_nonvacuous :
  let hash := fun (_ : bool) (_ : addr) => 0%N in
  let c := [99]%N in
  let u := mkudp (Some true) (Some 0%N) (Some 0%N) (Some false) (Some false) in
  let p0 := mkproxy 30 30 4 1500 None None [] 16393 10000 1024 in
  let '(p1, i1) := px_add_cluster p0 c (Some u) in
  let '(p2, i2) := px_add_front p1 c in
  let m0 := feed hash (mgr_new default_cfg 4 1500) 0 (i1 ++ i2) in
  let src := mkaddr [127;0;0;2]%N 10000%N in
  let m1 := fst (step hash m0 1 (IClient src [1]%N)) in
  let m2 := fst (step hash m1 1 (IResolved 0 [98]%N (mkaddr [127;0;0;1]%N 5000%N))) in
  let m3 := feed hash m2 2 (snd (px_remove_front p2)) in
  px_cluster p0 = None /\ px_route p2 = Some c /\ slen (m_flows m2) = 1 /\
  In (Some 0%N, SendToBackend (mkaddr [127;0;0;1]%N 5000%N) [2]%N) (snd (step hash m2 2 (IClient src [2]%N))) /\
  snd (step hash m3 2 (IClient src [2]%N)) = drop_datagram DNoBackend /\ slen (m_flows m3) = 1 /\
  m_max_flows (feed hash m3 2 (snd (px_update_listener (fst (px_remove_front p2))
                                     (mkpatch (Some 1%N) None (Some 99999%N) (Some 0%N))))) = 1024%N /\
  m_max_rx (feed hash m3 2 (snd (px_update_listener (fst (px_remove_front p2))
                                     (mkpatch (Some 1%N) None (Some 99999%N) (Some 0%N))))) = 16393%N.
Proof. vm_compute. repeat split. right; left; reflexivity. Qed.

(** [WriteQueue]: one drain puts on the wire an in-order, duplicate-free selection
    of a prefix of the queue (hard errors drop, the first WouldBlock stops) and
    leaves the rest, in order, for the next writable event; [push] only appends. *)
Theorem write_queue_drain_in_order :
  forall items sched rest sent sched',
    wq_drain_items items sched = (rest, sent, sched') ->
    exists tried, items = tried ++ rest /\ sublist sent tried.
Proof. exact wq_drain_spec. Qed.

Theorem write_queue_push_appends :
  forall q d p q' ok, wq_push q d p = (q', ok) ->
    wq_cap q' = wq_cap q /\
    (if ok then wq_items q' = wq_items q ++ [(d, p)] /\ length (wq_items q) < wq_cap q
     else q' = q /\ wq_cap q <= length (wq_items q)).
Proof. exact wq_push_spec. Qed.

(* ------------------------------------------------------------------ *)
(** The defect fixed by d875ae5, on the model of the OLD [on_close_flow]
    ([two_keys = false]): a flow admitted under one affinity mode and closed under
    the other leaves its shadow-table entry behind. *)
Definition sx_hash (_ : bool) (a : addr) : N := a_port a.
Definition sx_cfg (wp : bool) : cfg := mkcfg [99%N] wp 0 0 1000 1000 false false.
Definition sx_a1 := mkaddr [10;0;0;1]%N 9000.
Definition sx_b := mkaddr [127;0;0;1]%N 5300.
Definition sx_env := mkenv (Some ([98%N], sx_b)) true.
Definition sx_run (tk : bool) : shell :=
  let s0 := shell_new (mgr_new (sx_cfg true) 4 64) (mkaddr [127;0;0;1]%N 4000) in
  let s1 := fst (shell_step sx_hash tk s0 0 sx_env [] (EClient sx_a1 [1;2]%N)) in
  let s2 := fst (shell_step sx_hash tk s1 5 sx_env [] (EConfig (ISetCluster (sx_cfg false)))) in
  fst (shell_step sx_hash tk s2 1000 sx_env [] ETimer).

Theorem stale_shadow_entry_refuted_before_d875ae5 :
  sh_socks (sx_run false) = [] /\ sh_q (sx_run false) = [] /\
  tget (sh_key2f (sx_run false)) sx_a1 = Some 0.
Proof. vm_compute. repeat split. Qed.

Example stale_shadow_entry_fixed :
  sh_socks (sx_run true) = [] /\ sh_q (sx_run true) = [] /\ sh_key2f (sx_run true) = [].
Proof. vm_compute. repeat split. Qed.

(** non-vacuity: a reachable state with an open socket, then a reply, then close_all *)
Example shell_nonvacuous :
  let s0 := shell_new (mgr_new (sx_cfg true) 4 64) (mkaddr [127;0;0;1]%N 4000) in
  let r1 := shell_step sx_hash true s0 0 sx_env [] (EClient sx_a1 [1;2]%N) in
  let r2 := shell_step sx_hash true (fst r1) 1 sx_env [] (EUpstream 1 [7]%N) in
  let r3 := shell_step sx_hash true (fst r2) 2 sx_env [] ECloseAll in
  snd r1 = [WOpen 1 0 sx_b; WUp 1 [1;2]%N] /\ sh_q (fst r1) = [] /\
  snd r2 = [WClient sx_a1 [7]%N] /\
  snd r3 = [WClose 1] /\ sh_socks (fst r3) = [] /\ sh_opened (fst r3) = 1 /\ sh_closed (fst r3) = 1.
Proof. vm_compute. repeat split. Qed.

Example write_queue_nonvacuous :
  (* first send blocks: queued; second is appended behind it; the writable event flushes both in order *)
  let s0 := shell_new (mgr_new (sx_cfg true) 4 64) (mkaddr [127;0;0;1]%N 4000) in
  let r1 := shell_step sx_hash true s0 0 sx_env [WouldBlock] (EClient sx_a1 [1]%N) in
  let r2 := shell_step sx_hash true (fst r1) 1 sx_env [] (EClient sx_a1 [2]%N) in
  let r3 := shell_step sx_hash true (fst r2) 2 sx_env [] (EUpWritable 1) in
  snd r1 = [WOpen 1 0 sx_b] /\ snd r2 = [] /\ snd r3 = [WUp 1 [1]%N; WUp 1 [2]%N].
Proof. vm_compute. repeat split. Qed.
