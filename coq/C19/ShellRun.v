(** C19 — token interface of the SHELL model ([C19/Shell.v]) for the black-box
    correspondence: the scenarios of harness/src/bin/c19e.rs (a real worker
    thread, loopback sockets) are replayed through [shell_step].

    The load balancer's choice is data: [props/c19.py:shell_model_ops] copies
    the backend index the implementation was observed to pick into each [send]
    op.  Everything else is predicted by the model and compared: whether the
    datagram reaches a backend, WHICH backend (from the model's own socket, not
    from the hint, once the flow exists), on which upstream socket (index in
    order of creation), and which client receives the echo.

    The control-plane requests of the scenario (AddCluster, RemoveCluster, AddUdpFrontend, RemoveUdpFrontend,
    UpdateUdpListener) go through the proxy-level model [C19/Routing.v]: [r_px] is the proxy's routing state and
    the manager receives exactly the inputs those functions return. *)
From Coq Require Import List Arith ZArith NArith String Bool.
From SV Require Import Common.Tok Common.Slab C19.Model C19.Shell C19.Routing C19.Run.
Import ListNotations.
Open Scope string_scope.
Open Scope list_scope.

Record srun := mksrun {
  r_sh : shell; r_now : N; r_px : proxy;
  r_seq : list (nat * nat);      (* upstream token -> index of the socket in order of creation *)
  r_nseq : nat;
  r_v6 : bool; r_removed : bool }.

Definition v6_loopback : list N := [0;0;0;0;0;0;0;0;0;0;0;0;0;0;0;1]%N.
Definition client_addr (v6 : bool) (ci : Z) : addr :=
  if v6 then mkaddr v6_loopback (10000 + Z.to_N ci)%N
  else mkaddr [127; 0; 0; 2 + Z.to_N (Z.modulo ci 4)]%N (10000 + Z.to_N ci)%N.
Definition backend_addr (v6 : bool) (bi : Z) : addr :=
  mkaddr (if v6 then v6_loopback else [127; 0; 0; 1]%N) (5000 + Z.to_N bi)%N.
Definition listen_addr : addr := mkaddr [127; 0; 0; 1]%N 4000%N.

Fixpoint note_opens (w : list wire) (seq : list (nat * nat)) (n : nat) : list (nat * nat) * nat :=
  match w with
  | [] => (seq, n)
  | WOpen tok _ _ :: w' => note_opens w' (nset seq tok n) (S n)
  | _ :: w' => note_opens w' seq n
  end.

Fixpoint first_up (w : list wire) : option (nat * list N) :=
  match w with
  | [] => None
  | WUp tok p :: _ => Some (tok, p)
  | _ :: w' => first_up w'
  end.
Fixpoint first_client (w : list wire) : option addr :=
  match w with
  | [] => None
  | WClient d _ :: _ => Some d
  | _ :: w' => first_client w'
  end.
(** the backend a socket is connected to, from the [WOpen] that created it or the live record *)
Fixpoint opened_backend (w : list wire) (tok : nat) : option addr :=
  match w with
  | [] => None
  | WOpen t _ b :: w' => if Nat.eqb t tok then Some b else opened_backend w' tok
  | _ :: w' => opened_backend w' tok
  end.

Definition no_env : env := mkenv None true.

(** fire the shell timer as long as its deadline has passed *)
Fixpoint fire_due (fuel : nat) (sh : shell) (now : N) : shell :=
  match fuel with
  | O => sh
  | S fuel' =>
    match sh_timer sh with
    | Some d => if N.leb d now
                then fire_due fuel' (fst (shell_step enc_hash true sh d no_env [] ETimer)) now
                else sh
    | None => sh
    end
  end.

Definition CL : cid := [99; 49; 57]%N.     (* "c19" *)
Definition px0 : proxy := mkproxy 0 0 0 0 None None [] 16393 10000 1000000.

(** the knobs the driver re-sends with its AddCluster: the cached block's, the defaults when there is none *)
Definition knob_n (o : option N) : N := match o with Some n => n | None => 0%N end.
Definition knob_b (o : option bool) : bool := match o with Some b => b | None => false end.
Definition reblock (p : proxy) (wp : bool) : udp_block :=
  match cache_get (px_cache p) CL with
  | Some u => mkudp (Some wp) (Some (knob_n (u_responses u))) (Some (knob_n (u_requests u)))
                    (Some (knob_b (u_send_pp u))) (Some (knob_b (u_pp_every u)))
  | None => mkudp (Some wp) (Some 0%N) (Some 0%N) (Some false) (Some false)
  end.

Fixpoint cfg_events (sh : shell) (now : N) (l : list input) : shell :=
  match l with
  | [] => sh
  | i :: l' => cfg_events (fst (shell_step enc_hash true sh now no_env [] (EConfig i))) now l'
  end.

Definition opt_n (t : option tok) : option N :=
  match t with Some (TN z) => if Z.ltb z 0 then None else Some (Z.to_N z) | _ => None end.

Definition sstep (st : srun) (op : list tok) : srun * list tok :=
  let bad := (st, [TS "badop"]) in
  (* a control-plane request: the proxy model says what the manager is told *)
  let control (r : proxy * list input) (name : string) :=
    (mksrun (cfg_events (r_sh st) (r_now st) (snd r)) (r_now st) (fst r) (r_seq st) (r_nseq st) (r_v6 st)
            (r_removed st), [TS name; TN 1]) in
  match op with
  | TS name :: args =>
    if name =? "setup" then
      match args with
      | TN wp :: TN resp :: TN req :: TN pp :: TN mf :: TN _nb :: rest =>
        let idle := match rest with TN i :: _ => Z.to_N i | _ => 30%N end in
        let every := match rest with _ :: TN e :: _ => Z.eqb e 1 | _ => false end in
        let v6 := match rest with _ :: _ :: TN v :: _ => Z.eqb v 1 | _ => false end in
        (* AddUdpListener, AddCluster, AddUdpFrontend *)
        let u := mkudp (Some (Z.eqb wp 1)) (Some (Z.to_N resp)) (Some (Z.to_N req)) (Some (Z.eqb pp 1)) (Some every) in
        let p0 := mkproxy idle idle (Z.to_N mf) 1500 None None [] 16393 10000 1000000 in
        let p := fst (px_add_front (fst (px_add_cluster p0 CL (Some u))) CL) in
        let cap := effective_max_flows (px_max_flows p) (px_max_conn p) (px_auto p) in
        (mksrun (shell_new (mgr_new (px_cfg p) cap (clamp_max_rx 1500 (px_buffer_size p))) listen_addr)
                (r_now st) p [] 0 v6 false, [TS "setup"; TN 1])
      | _ => bad end
    else if name =? "send" then
      match args with
      | [TN ci; TB p; TN bi] =>
        if r_removed st then (st, [TS "send"; TN ci; TN 0; TN (-1); TN (-1); TN (-1)]) else
        let src := client_addr (r_v6 st) ci in
        let e := mkenv (if Z.ltb bi 0 then None else Some ([98; 48 + Z.to_N bi]%N, backend_addr (r_v6 st) bi)) true in
        let '(sh1, w1) := shell_step enc_hash true (r_sh st) (r_now st) e [] (EClient src p) in
        let '(seq1, n1) := note_opens w1 (r_seq st) (r_nseq st) in
        match first_up w1 with
        | None => (mksrun sh1 (r_now st) (r_px st) seq1 n1 (r_v6 st) false, [TS "send"; TN ci; TN 0; TN (-1); TN (-1); TN (-1)])
        | Some (tok, _) =>
          let b := match opened_backend w1 tok with
                   | Some b => Some b
                   | None => match sock_of_tok (sh_socks (r_sh st)) tok with Some s => Some (s_backend s) | None => None end
                   end in
          let bidx := match b with Some b => Z.of_N (a_port b) - 5000 | None => -1 end in
          let reply := [66; 48 + Z.to_N bidx; 124]%N ++ p in
          (* an echo above max_rx_datagram_size is dropped by the manager itself *)
          let '(sh2, w2) := shell_step enc_hash true sh1 (r_now st) no_env [] (EUpstream tok reply) in
          let rt := match first_client w2 with Some d => Z.of_N (a_port d) - 10000 | None => -1 end in
          (mksrun sh2 (r_now st) (r_px st) seq1 n1 (r_v6 st) false,
           [TS "send"; TN ci; TN 1; TN bidx;
            match nget seq1 tok with Some k => tn_nat k | None => TN (-1) end; TN rt])
        end
      | _ => bad end
    else if name =? "sleep" then
      match args with
      | TN ms :: _ =>
        let now := (r_now st + Z.to_N ms)%N in
        (mksrun (fire_due 64 (r_sh st) now) now (r_px st) (r_seq st) (r_nseq st) (r_v6 st) (r_removed st), [])
      | _ => bad end
    else if name =? "recluster" then
      match args with
      | [TN wp] => control (px_add_cluster (r_px st) CL (Some (reblock (r_px st) (Z.eqb wp 1)))) "recluster"
      | _ => bad end
    else if name =? "updlistener" then
      match args with
      | t0 :: rest =>
        (* UpdateUdpListener: max_rx [front back max_flows], a negative value leaves the field out of the patch *)
        control (px_update_listener (r_px st)
                   (mkpatch (opt_n (nth_error rest 0)) (opt_n (nth_error rest 1)) (opt_n (Some t0))
                            (opt_n (nth_error rest 2)))) "updlistener"
      | _ => bad end
    else if name =? "recluster_noudp" then
      (* AddCluster without a udp block: apply_cluster clears the cached knobs, cluster_config_for gives the defaults *)
      control (px_add_cluster (r_px st) CL None) "recluster_noudp"
    else if name =? "rmfront" then control (px_remove_front (r_px st)) "rmfront"
    else if name =? "addfront" then control (px_add_front (r_px st) CL) "addfront"
    else if name =? "rmcluster" then control (px_remove_cluster (r_px st) CL) "rmcluster"
    else if name =? "addbackend" then (st, [TS "addbackend"; TN 1])   (* the load balancer is an oracle *)
    else if name =? "rmbackend" then (st, [TS "rmbackend"; TN 1])
    else if name =? "bounce" then
      (* DeactivateListener + ActivateListener: close_all_flows, then a fresh session over the same manager *)
      (mksrun (fst (shell_step enc_hash true (r_sh st) (r_now st) no_env [] ECloseAll))
              (r_now st) (r_px st) (r_seq st) (r_nseq st) (r_v6 st) (r_removed st), [TS "bounce"; TN 1; TN 1])
    else if name =? "remove" then
      (* RemoveListener: close_all_flows, then the listener is gone *)
      (mksrun (fst (shell_step enc_hash true (r_sh st) (r_now st) no_env [] ECloseAll))
              (r_now st) (r_px st) (r_seq st) (r_nseq st) (r_v6 st) true, [TS "remove"; TN 1])
    else bad
  | _ => bad
  end.

Fixpoint srun_from (st : srun) (ops : list (list tok)) : list (list tok) :=
  match ops with
  | [] => []
  | op :: ops' => let '(st', o) := sstep st op in o :: srun_from st' ops'
  end.

Definition run_shell_case (ops : list (list tok)) : list (list tok) :=
  srun_from (mksrun (shell_new (mgr_new empty_cfg 0 0) listen_addr) 0%N px0 [] 0 false false) ops.
