(** C09 — base types shared by the generated tables (Gen.v) and the model. *)
From Coq Require Import List Arith NArith Bool.
Import ListNotations.

(** [ResponseStatus] as decoded by [ResponseStatus::try_from]; [SInvalid] is
    the [Err(_)] arm (a number outside the enum). *)
Inductive status := SOk | SProcessing | SFailure | SInvalid.

(** what [DefaultGatherer::on_message] does with one worker response *)
Inductive arm := IncOk | IncErr | Notice | Nothing.

(** the [Timeout] handed to [Server::scatter] / [Server::new_task] *)
Inductive tmo := TDefault | TNone.

Definition status_eqb (a b : status) : bool :=
  match a, b with
  | SOk, SOk | SProcessing, SProcessing | SFailure, SFailure | SInvalid, SInvalid => true
  | _, _ => false
  end.
