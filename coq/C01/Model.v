(** C01 — proxied HTTP bodies arrive complete, unmodified and in order.

    Executable models (no proofs here):
      - framings both ways: Content-Length, chunked at the token level (chunk
        sizes are numbers, the hex rendering is kawa's), HTTP/2 DATA with
        padding and a maximum frame size;
      - the relay as three machines (ingest / convert / flush) driven by an
        arbitrary schedule;
      - the plain-TCP write loop of lib/src/socket.rs (tcp_socket_write) and
        the single-shot tcp_socket_write_vectored over a kernel that accepts
        a prefix of what it is offered;
      - the readiness word (event/interest, signal_pending_write, arm_writable)
        of lib/src/lib.rs with an edge-triggered kernel. *)
From Coq Require Import String.
From Coq Require Import List Arith NArith ZArith Bool Lia.
Import ListNotations.

Definition byte := N.

(** * Framings *)

(** Content-Length: the body is the next [n] bytes *)
Definition cl_encode (body : list byte) : nat * list byte := (length body, body).
Definition cl_decode (n : nat) (wire : list byte) : option (list byte * list byte) :=
  if length wire <? n then None else Some (firstn n wire, skipn n wire).

(** chunked, token level *)
Inductive ctok := CSize (n : nat) | CData (bs : list byte) | CEnd.

(** cut [body] after the sizes of [cuts] (a zero or oversize cut takes what is left) *)
Fixpoint split_at (cuts : list nat) (body : list byte) : list (list byte) :=
  match cuts with
  | [] => match body with [] => [] | _ => [body] end
  | c :: r =>
    match body with
    | [] => []
    | _ =>
      let k := if (c =? 0) || (length body <? c) then length body else c in
      firstn k body :: split_at r (skipn k body)
    end
  end.

Definition chunked_encode (cuts : list nat) (body : list byte) : list ctok :=
  flat_map (fun ch => [CSize (length ch); CData ch]) (split_at cuts body) ++ [CSize 0; CEnd].

(** strict decoder: every announced size must be met exactly, the last chunk is mandatory *)
Fixpoint chunked_decode (ts : list ctok) : option (list byte * list ctok) :=
  match ts with
  | CSize 0 :: CEnd :: rest => Some ([], rest)
  | CSize n :: CData bs :: rest =>
    if (n =? 0) || negb (length bs =? n) then None
    else match chunked_decode rest with
         | Some (b, r) => Some (bs ++ b, r)
         | None => None
         end
  | _ => None
  end.

(** HTTP/2 DATA frames: payload, padding length, END_STREAM *)
Record dframe := mkF { f_payload : list byte; f_pad : nat; f_end : bool }.

Fixpoint h2_frames (fuel max : nat) (pads : list nat) (body : list byte) : list dframe :=
  match fuel with
  | O => [mkF [] 0 true]
  | S f =>
    let pad := hd 0 pads in
    if length body <=? max then [mkF body pad true]
    else mkF (firstn max body) pad false :: h2_frames f max (tl pads) (skipn max body)
  end.

(** receiver: concatenates payloads up to END_STREAM; frames after it are an error *)
Fixpoint h2_deframe (fs : list dframe) : option (list byte) :=
  match fs with
  | [] => None
  | f :: r =>
    if f_end f then match r with [] => Some (f_payload f) | _ => None end
    else match h2_deframe r with Some b => Some (f_payload f ++ b) | None => None end
  end.

(** * Byte-level HTTP/1 body decoders (what a strict client does with the bytes
    that follow the header block).  They are prefix-tolerant: on a message cut
    short they return the body bytes received so far and [false]. *)
Definition hexval (b : byte) : option N :=
  if (48 <=? b)%N && (b <=? 57)%N then Some (b - 48)%N
  else if (97 <=? b)%N && (b <=? 102)%N then Some (b - 87)%N
  else if (65 <=? b)%N && (b <=? 70)%N then Some (b - 55)%N
  else None.

(** chunk-size line: hex digits then CR LF (no chunk extension: kawa has no rule for them) *)
Fixpoint size_line (acc : N) (seen : bool) (bs : list byte) : option (N * list byte) :=
  match bs with
  | [] => None
  | b :: r =>
    match hexval b with
    | Some v => size_line (acc * 16 + v)%N true r
    | None =>
      if seen && (b =? 13)%N then
        match r with
        | c :: r' => if (c =? 10)%N then Some (acc, r') else None
        | [] => None
        end
      else None
    end
  end.

(** trailer section: lines ending in CR LF up to the empty line; true iff the empty line is there
    and nothing follows *)
Fixpoint trailers_end (fuel : nat) (bs : list byte) (at_line_start : bool) : bool :=
  match fuel with
  | O => false
  | S f =>
    match bs with
    | 13%N :: 10%N :: r => if at_line_start then match r with [] => true | _ => false end
                           else trailers_end f r true
    | _ :: r => trailers_end f r false
    | [] => false
    end
  end.

Fixpoint has_crlf (bs : list byte) : bool :=
  match bs with
  | 13%N :: ((10%N :: _) as r) => true
  | _ :: r => has_crlf r
  | [] => false
  end.

(** -> (body so far, complete, malformed); a size line that is complete (CR LF seen) but does
    not parse is malformed, one that is still cut short is not *)
Fixpoint dechunk (fuel : nat) (bs : list byte) : list byte * bool * bool :=
  match fuel with
  | O => ([], false, false)
  | S f =>
    match size_line 0 false bs with
    | None => ([], false, has_crlf bs)
    | Some (n, r) =>
      if (n =? 0)%N then ([], trailers_end (S (length r)) r true, false)
      else
        let k := N.to_nat n in
        let data := firstn k r in
        if length r <? k then (data, false, false)
        else
          match skipn k r with
          | 13%N :: 10%N :: r' => let '(b, c, e) := dechunk f r' in (data ++ b, c, e)
          | [] | [13%N] => (data, false, false)
          | _ => (data, false, true)
          end
    end
  end.

(** kind 0 content-length [n], 1 chunked, 2 close-delimited ([whole] = the sender closed after it) *)
Definition h1_body_decode (kind : N) (n : nat) (whole : bool) (after_head : list byte) : list byte * bool * bool :=
  if (kind =? 0)%N then (firstn n after_head, n <=? length after_head, false)
  else if (kind =? 1)%N then dechunk (S (length after_head)) after_head
  else (after_head, whole, false).

(** encoder used by the round-trip theorem: a chunk is (hex digits of its size, data) *)
Definition hexchar (v : N) : byte := if (v <? 10)%N then (v + 48)%N else (v + 87)%N.
Fixpoint hex_value (acc : N) (ds : list N) : N :=
  match ds with [] => acc | d :: r => hex_value (acc * 16 + d)%N r end.
Definition chunk_bytes (ds : list N) (data : list byte) : list byte :=
  map hexchar ds ++ [13; 10]%N ++ data ++ [13; 10]%N.
Definition last_chunk_bytes : list byte := [48; 13; 10; 13; 10]%N.

(** * H2 upload without content-length toward an HTTP/1.1 backend: the blocks
    ConnectionH2::handle_data_frame pushes for each DATA frame (chunk header in
    hex, data, end-of-chunk flags; on END_STREAM the end flags with
    [end_chunk = chunked]) as kawa's H1 converter writes them. *)
Definition hex_digit_char (v : N) : byte := if (v <? 10)%N then (v + 48)%N else (v + 87)%N.
Fixpoint to_hex (fuel : nat) (n : N) (acc : list byte) : list byte :=
  match fuel with
  | O => acc
  | S f =>
    let acc' := hex_digit_char (n mod 16) :: acc in
    if (n / 16 =? 0)%N then acc' else to_hex f (n / 16) acc'
  end.

(** one DATA frame with a non-empty payload *)
Definition h2_data_as_chunk (data : list byte) : list byte :=
  match data with
  | [] => []
  | _ => to_hex 20 (N.of_nat (length data)) [] ++ [13; 10]%N ++ data ++ [13; 10]%N
  end.
(** the end flags: "0" CR LF when the message is chunked and the body ends, CR LF when end_chunk *)
Definition h2_end_as_chunk (end_chunk : bool) : list byte :=
  [48; 13; 10]%N ++ (if end_chunk then [13; 10]%N else []).
Definition h2_upload_as_h1 (frames : list (list byte)) (ended : bool) (end_chunk : bool) : list byte :=
  flat_map h2_data_as_chunk frames ++ (if ended then h2_end_as_chunk end_chunk else []).

(** the same upload ended by a trailer block (HEADERS with END_STREAM after the DATA frames,
    lib/src/protocol/mux/pkawa.rs handle_trailer): the end-of-body flags — the last-chunk line
    only, [end_chunk = false] in the source —, one line per field, the empty line that closes
    the trailer section.  Under content-length framing the fields cannot be carried: nothing
    is written after the body. *)
Definition trailer_line (kv : list byte * list byte) : list byte :=
  fst kv ++ [58; 32]%N ++ snd kv ++ [13; 10]%N.
Definition trailer_section (fields : list (list byte * list byte)) : list byte :=
  flat_map trailer_line fields ++ [13; 10]%N.
Definition h2_trailers_as_h1 (end_chunk : bool) (fields : list (list byte * list byte)) : list byte :=
  h2_end_as_chunk end_chunk ++ trailer_section fields.
Definition h2_upload_trailers_as_h1 (frames : list (list byte)) (chunked : bool) (end_chunk : bool)
           (fields : list (list byte * list byte)) : list byte :=
  if chunked then flat_map h2_data_as_chunk frames ++ h2_trailers_as_h1 end_chunk fields
  else concat frames.
(** side conditions of the statements: a field has no CR in its name or value (the H2 header
    validation of the source rejects them), a DATA payload is shorter than 16^20 bytes (the
    hex rendering below is given 20 digits) *)
Definition field_ok (kv : list byte * list byte) : Prop :=
  Forall (fun x => x <> 13%N) (fst kv) /\ Forall (fun x => x <> 13%N) (snd kv).
Definition frame_ok (d : list byte) : Prop := (N.of_nat (length d) < 16 ^ 20)%N.

(** * The H2 block converter on body blocks (lib/src/protocol/mux/converter.rs,
    H2BlockConverter::call, arms Block::Chunk and Block::Flags{end_stream}) driven
    by kawa.prepare: blocks are popped until the converter says stop. *)
Inductive blk := BChunk (d : list byte) | BEnd.

Fixpoint h2_prepare (fuel : nat) (window : Z) (max : nat) (blocks : list blk) : list dframe * list blk * Z :=
  match fuel with
  | O => ([], blocks, window)
  | S f =>
    match blocks with
    | [] => ([], [], window)
    | BEnd :: r =>
      (* end_stream without end_header: an empty DATA frame carrying END_STREAM *)
      let '(fs, bl, w) := h2_prepare f window max r in (mkF [] 0 true :: fs, bl, w)
    | BChunk d :: r =>
      let len := length d in
      if (Z.of_nat len <=? window)%Z && (len <=? max) then
        (* the window is wide enough to send the entire chunk *)
        let '(fs, bl, w) := h2_prepare f (window - Z.of_nat len)%Z max r in (mkF d 0 false :: fs, bl, w)
      else if (0 <? window)%Z then
        (* split the chunk to fit the window / the frame size *)
        let pl := Z.to_nat (Z.min (Z.of_nat max) window) in   (* min(max_frame_size, window) *)
        let before := firstn pl d in
        let after := skipn pl d in
        let blocks' := match after with [] => r | _ => BChunk after :: r end in
        let w' := (window - Z.of_nat pl)%Z in
        if (Z.of_nat max <? window)%Z then
          let '(fs, bl, w2) := h2_prepare f w' max blocks' in (mkF before 0 false :: fs, bl, w2)
        else ([mkF before 0 false], blocks', w')
      else
        (* flow-control stall: the chunk goes back to the queue *)
        ([], blocks, window)
    end
  end.

Definition body_of (blocks : list blk) : list byte :=
  flat_map (fun b => match b with BChunk d => d | BEnd => [] end) blocks.
Definition payload_of (fs : list dframe) : list byte := flat_map f_payload fs.

(** A response that ends with a trailer section (HTTP/1.1 chunked with trailers, toward an H2 client): the
    converter writes the body as before and, where the plain end of a message writes the empty DATA frame
    carrying END_STREAM, one HEADERS frame with the trailer fields and END_STREAM (converter.rs, arm
    Block::Flags with end_header: the header block accumulated since the body); with no field left
    after filtering it is the empty DATA frame again. *)
Inductive h2out := OData (payload : list byte) (end_stream : bool) | OTrailers (nfields : nat).
Definition h2_out_with_trailers (nfields : nat) (fs : list dframe) : list h2out :=
  map (fun f => if f_end f && negb (Nat.eqb nfields 0) then OTrailers nfields else OData (f_payload f) (f_end f)) fs.
Definition is_trailers (o : h2out) : bool := match o with OTrailers _ => true | _ => false end.

(** one prepare per window of the schedule (the write path consumes the output in between) *)
Fixpoint h2_rounds (fuel : nat) (max : nat) (windows : list Z) (blocks : list blk) : list (list dframe * Z) * list blk :=
  match windows with
  | [] => ([], blocks)
  | w :: ws =>
    let '(fs, bl, w') := h2_prepare fuel w max blocks in
    let '(rest, final) := h2_rounds fuel max ws bl in
    ((fs, w') :: rest, final)
  end.

(** * The relay: ingest / convert / flush *)
Record relay := mkR {
  r_in : list byte;     (* not yet read from the sender *)
  r_buf : list byte;    (* read, in the kawa storage (bounded) *)
  r_out : list byte;    (* converted, queued for the socket *)
  r_sent : list byte    (* written to the receiver *)
}.

Inductive rop := Ingest (k : nat) | Convert (k : nat) | Flush (k : nat).

Definition relay_step (cap : nat) (r : relay) (o : rop) : relay :=
  match o with
  | Ingest k =>
    let room := cap - length (r_buf r) in
    let n := Nat.min k room in
    mkR (skipn n (r_in r)) (r_buf r ++ firstn n (r_in r)) (r_out r) (r_sent r)
  | Convert k =>
    mkR (r_in r) (skipn k (r_buf r)) (r_out r ++ firstn k (r_buf r)) (r_sent r)
  | Flush k =>
    mkR (r_in r) (r_buf r) (skipn k (r_out r)) (r_sent r ++ firstn k (r_out r))
  end.

Definition relay_run (cap : nat) (r : relay) (ops : list rop) : relay := fold_left (relay_step cap) ops r.
Definition relay_init (body : list byte) : relay := mkR body [] [] [].

(** * Plain TCP write loop (lib/src/socket.rs tcp_socket_write / _vectored) *)
Inductive kres := KWrote (n : nat) | KWouldBlock | KReset | KError.
Inductive sres := Continue | WouldBlock | Closed | Error.

(** one [stream.write(&buf[size..])]: the kernel result is clamped to what was offered *)
Fixpoint tcp_write (fuel : nat) (len size : nat) (sched : list kres) : nat * sres * list kres :=
  match fuel with
  | O => (size, Error, sched)                   (* MAX_LOOP_ITERATIONS *)
  | S f =>
    if size =? len then (size, Continue, sched)
    else match sched with
         | [] => (size, WouldBlock, [])
         | KWrote 0 :: r => (size, Continue, r)  (* Ok(0) *)
         | KWrote n :: r => tcp_write f len (size + Nat.min n (len - size)) r
         | KWouldBlock :: r => (size, WouldBlock, r)
         | KReset :: r => (size, Closed, r)
         | KError :: r => (size, Error, r)
         end
  end.

(** single writev over the concatenation of the slices *)
Definition tcp_writev (len : nat) (sched : list kres) : nat * sres * list kres :=
  match sched with
  | [] => (0, WouldBlock, [])
  | KWrote n :: r => (Nat.min n len, Continue, r)
  | KWouldBlock :: r => (0, WouldBlock, r)
  | KReset :: r => (0, Closed, r)
  | KError :: r => (0, Error, r)
  end.

(** the caller's loop around the vectored call (h1.rs/h2.rs writable: write,
    consume, repeat while progress): same schedule, same cursor discipline *)
Fixpoint tcp_writev_loop (fuel : nat) (len size : nat) (sched : list kres) : nat * sres * list kres :=
  match fuel with
  | O => (size, Error, sched)
  | S f =>
    if size =? len then (size, Continue, sched)
    else
      let '(n, st, r) := tcp_writev (len - size) sched in
      match st with
      | Continue => if n =? 0 then (size, Continue, r) else tcp_writev_loop f len (size + n) r
      | _ => (size, st, r)
      end
  end.

(** * The two rustls write loops of FrontRustls (lib/src/socket.rs).
    rustls is abstracted to a plaintext/record buffer holding [p] bytes with an
    optional limit: [writer().write(n)] takes min(n, limit - p); [write_tls]
    moves bytes from that buffer to the socket and answers Ok(0) when it is
    empty; the socket follows a [kres] schedule. *)
Record tls := mkTls { t_pending : nat; t_limit : option nat; t_flushed : nat }.

Definition tls_accept (t : tls) (n : nat) : nat :=
  match t_limit t with None => n | Some l => Nat.min n (l - t_pending t) end.

Record wflags := mkW { w_can : bool; w_err : bool; w_closed : bool }.

(** the inner `loop { match write_tls { Ok(0) => break, Ok(_) => {}, WouldBlock => can_write=false ... } }` *)
Fixpoint tls_flush (fuel : nat) (t : tls) (w : wflags) (sched : list kres) : tls * wflags * list kres :=
  match fuel with
  | O => (t, w, sched)
  | S f =>
    if t_pending t =? 0 then (t, w, sched)              (* write_tls: nothing to write -> Ok(0) *)
    else match sched with
         | [] => (t, mkW false (w_err w) (w_closed w), [])
         | KWrote 0 :: r => (t, w, r)
         | KWrote n :: r =>
           let k := Nat.min n (t_pending t) in
           tls_flush f (mkTls (t_pending t - k) (t_limit t) (t_flushed t + k)) w r
         | KWouldBlock :: r => (t, mkW false (w_err w) (w_closed w), r)
         | KReset :: r => (t, mkW (w_can w) (w_err w) true, r)
         | KError :: r => (t, mkW (w_can w) true (w_closed w), r)
         end
  end.

Definition tls_status (w : wflags) : sres :=
  if w_err w then Error else if w_closed w then Closed else if negb (w_can w) then WouldBlock else Continue.

(** tail common to both functions: one more flush when rustls still wants to write *)
Definition tls_tail (fuel : nat) (t : tls) (w : wflags) (sched : list kres) : tls * wflags * list kres :=
  if negb (w_err w) && negb (w_closed w) && w_can w && negb (t_pending t =? 0)
  then tls_flush fuel t w sched else (t, w, sched).

(** FrontRustls::socket_write *)
Fixpoint tls_write_loop (fuel : nat) (len buffered : nat) (t : tls) (w : wflags) (sched : list kres)
  : nat * tls * wflags * list kres :=
  match fuel with
  | O => (buffered, t, mkW (w_can w) true (w_closed w), sched)       (* MAX_LOOP_ITERATIONS *)
  | S f =>
    if buffered =? len then (buffered, t, w, sched)
    else if negb (w_can w) || w_err w || w_closed w then (buffered, t, w, sched)
    else
      let a := tls_accept t (len - buffered) in
      let t1 := mkTls (t_pending t + a) (t_limit t) (t_flushed t) in
      let '(t2, w2, s2) := tls_flush (S (t_pending t1)) t1 w sched in
      tls_write_loop f len (buffered + a) t2 w2 s2
  end.

Definition tls_write (fuel len : nat) (t : tls) (sched : list kres) : nat * sres * tls * list kres :=
  let '(b, t1, w1, s1) := tls_write_loop fuel len 0 t (mkW true false false) sched in
  let '(t2, w2, s2) := tls_tail (S (t_pending t1)) t1 w1 s1 in
  (b, tls_status w2, t2, s2).

(** FrontRustls::socket_write_vectored: the data is offered to rustls only while
    nothing has been accepted yet; a partial acceptance flushes and returns *)
Fixpoint tls_writev_loop (fuel : nat) (len buffered : nat) (t : tls) (w : wflags) (sched : list kres)
  : nat * tls * wflags * list kres :=
  match fuel with
  | O => (buffered, t, mkW (w_can w) true (w_closed w), sched)
  | S f =>
    if buffered =? len then (buffered, t, w, sched)
    else if negb (w_can w) || w_err w || w_closed w then (buffered, t, w, sched)
    else
      let a := if buffered =? 0 then tls_accept t len else 0 in
      let t1 := mkTls (t_pending t + a) (t_limit t) (t_flushed t) in
      let b1 := buffered + a in
      let '(t2, w2, s2) := tls_flush (S (t_pending t1)) t1 w sched in
      if (0 <? b1) && (b1 <? len) then (b1, t2, w2, s2)          (* partial: flush, then break *)
      else tls_writev_loop f len b1 t2 w2 s2
  end.

Definition tls_writev (fuel len : nat) (t : tls) (sched : list kres) : nat * sres * tls * list kres :=
  let '(b, t1, w1, s1) := tls_writev_loop fuel len 0 t (mkW true false false) sched in
  let '(t2, w2, s2) := tls_tail (S (t_pending t1)) t1 w1 s1 in
  (b, tls_status w2, t2, s2).

(** * Readiness word under edge-triggered delivery *)
Record rdy := mkY {
  y_event : bool;       (* readiness.event has WRITABLE *)
  y_interest : bool;    (* readiness.interest has WRITABLE *)
  y_queued : bool;      (* output is queued in sozu-owned buffers *)
  y_sock : bool         (* the kernel send buffer has room *)
}.

Inductive yop :=
| YQueue (arms : bool)  (* a handler queues output; [arms] = it ends with arm_writable / insert+signal *)
| YLoop                 (* the session loop runs handlers whose event & interest is set *)
| YSockFull             (* the kernel buffer fills up (peer slow) *)
| YSockRoom.            (* room again: the kernel delivers ONE edge *)

Definition y_step (y : rdy) (o : yop) : rdy :=
  match o with
  | YQueue arms =>
    if arms then mkY true true true (y_sock y) else mkY (y_event y) (y_interest y) true (y_sock y)
  | YLoop =>
    if y_event y && y_interest y then
      if y_queued y then
        if y_sock y then mkY true false false true        (* everything written: interest dropped *)
        else mkY false true true false                    (* WouldBlock: event cleared, interest kept *)
      else mkY (y_event y) false false (y_sock y)         (* nothing to write: interest dropped *)
    else y
  | YSockFull => mkY (y_event y) (y_interest y) (y_queued y) false
  | YSockRoom => if y_sock y then y else mkY true (y_interest y) (y_queued y) true
  end.

Definition y_run (y : rdy) (ops : list yop) : rdy := fold_left y_step ops y.

(** the stall: output queued, socket writable, and the loop will not run the writer *)
Definition stalled (y : rdy) : bool := y_queued y && y_sock y && negb (y_event y && y_interest y).

(** census entry: (file, function, arms WRITABLE?, queues output?) — booleans, so that
    adding a second arming call to a function that already arms, or moving code
    inside a function, does not change the census *)
Definition census_row : Type := (string * string * bool * bool)%type.
