//! C20 driver: the real `Config::load_from_path` -> `generate_config_messages`
//! -> `ConfigState::dispatch` on a fresh state, on a TOML file printed by the
//! generator from an abstract declaration (the `g`/`l`/`c`/`f`/`b` ops, which are
//! the independent reading of the same file).
//!
//! Observations are canonical (every record list is sorted with the token
//! order shared with coq/C20/Run.v), because `Config.clusters` is a `HashMap`
//! whose iteration order differs from run to run.
use std::cmp::Ordering;
use std::collections::{BTreeMap, BTreeSet};
use std::net::SocketAddr;

use sozu_command_lib::{
    config::{Config, ConfigError},
    proto::command::{
        request::RequestType, CertificateAndKey, HstsConfig, SocketAddress, WorkerRequest,
    },
    state::{ConfigState, StateError},
};
use verif_harness::*;

// ---------------------------------------------------------------- helpers

fn on<T: TryInto<i128>>(v: Option<T>) -> Tok {
    match v {
        Some(x) => tn(x),
        None => tn(-1),
    }
}
fn ob(v: Option<bool>) -> Tok {
    match v {
        Some(x) => tbool(x),
        None => tn(-1),
    }
}
fn os(v: &Option<String>) -> Tok {
    match v {
        Some(x) => tb(x.as_bytes()),
        None => tn(-1),
    }
}
fn sa(a: &SocketAddress) -> String {
    SocketAddr::from(*a).to_string()
}

fn tok_cmp(a: &Tok, b: &Tok) -> Ordering {
    match (a, b) {
        (Tok::N(x), Tok::N(y)) => x.cmp(y),
        (Tok::B(x), Tok::B(y)) => x.cmp(y),
        (Tok::S(x), Tok::S(y)) => x.as_bytes().cmp(y.as_bytes()),
        (Tok::N(_), _) => Ordering::Less,
        (_, Tok::N(_)) => Ordering::Greater,
        (Tok::B(_), _) => Ordering::Less,
        (_, Tok::B(_)) => Ordering::Greater,
    }
}
fn rec_cmp(a: &Vec<Tok>, b: &Vec<Tok>) -> Ordering {
    for (x, y) in a.iter().zip(b.iter()) {
        let c = tok_cmp(x, y);
        if c != Ordering::Equal {
            return c;
        }
    }
    a.len().cmp(&b.len())
}
fn flat_sorted(mut recs: Vec<Vec<Tok>>) -> Vec<Tok> {
    recs.sort_by(rec_cmp);
    recs.into_iter().flatten().collect()
}

fn err_class(e: &ConfigError) -> &'static str {
    match e {
        ConfigError::Env(_) => "Env",
        ConfigError::FileOpen { .. } => "FileOpen",
        ConfigError::FileRead { .. } => "FileRead",
        ConfigError::Incompatible { .. } => "Incompatible",
        ConfigError::InvalidFrontendConfig(_) => "InvalidFrontendConfig",
        ConfigError::InvalidHealthCheck { .. } => "InvalidHealthCheck",
        ConfigError::DuplicateFrontend { .. } => "DuplicateFrontend",
        ConfigError::DuplicateBackend { .. } => "DuplicateBackend",
        ConfigError::InvalidPath(_) => "InvalidPath",
        ConfigError::ListenerAddressAlreadyInUse(_) => "ListenerAddressAlreadyInUse",
        ConfigError::Missing(_) => "Missing",
        ConfigError::NoFileParent(_) => "NoFileParent",
        ConfigError::SaveStatePath(_) => "SaveStatePath",
        ConfigError::SocketPathError(_) => "SocketPathError",
        ConfigError::DeserializeToml(_) => "DeserializeToml",
        ConfigError::WrongFrontendProtocol(_) => "WrongFrontendProtocol",
        ConfigError::WrongListenerProtocol { .. } => "WrongListenerProtocol",
        ConfigError::InvalidAlpnProtocol(_) => "InvalidAlpnProtocol",
        ConfigError::DisableHttp11WithHttp11Alpn { .. } => "DisableHttp11WithHttp11Alpn",
        ConfigError::BufferSizeTooSmallForH2 { .. } => "BufferSizeTooSmallForH2",
        ConfigError::InvalidRedirectPolicy(_) => "InvalidRedirectPolicy",
        ConfigError::InvalidRedirectScheme(_) => "InvalidRedirectScheme",
        ConfigError::InvalidHeaderPosition { .. } => "InvalidHeaderPosition",
        ConfigError::InvalidHeaderBytes { .. } => "InvalidHeaderBytes",
        ConfigError::HstsEnabledRequired(_) => "HstsEnabledRequired",
        ConfigError::HstsOnPlainHttp(_) => "HstsOnPlainHttp",
        ConfigError::InvalidCertificate { .. } => "InvalidCertificate",
        ConfigError::InvalidSozuIdHeader { .. } => "InvalidSozuIdHeader",
    }
}

fn res_code(r: &Result<(), StateError>) -> i128 {
    match r {
        Ok(()) => 0,
        Err(StateError::Exists { .. }) => 1,
        Err(StateError::NotFound { .. }) => 2,
        Err(StateError::InvalidValue { .. }) => 3,
        Err(_) => 9,
    }
}

struct Pool {
    /// fingerprint -> index in the generator's certificate pool
    by_fp: BTreeMap<Vec<u8>, i128>,
}
impl Pool {
    fn idx_of_pem(&self, pem: &str) -> i128 {
        let c = CertificateAndKey { certificate: pem.to_string(), ..Default::default() };
        match c.fingerprint() {
            Ok(fp) => *self.by_fp.get(&fp.0).unwrap_or(&-2),
            Err(_) => -3,
        }
    }
}

fn hsts_toks(h: &Option<HstsConfig>) -> [Tok; 2] {
    match h {
        None => [tn(-1), tn(-1)],
        Some(h) => [ob(h.enabled), on(h.max_age)],
    }
}

fn with_count(mut head: Vec<Tok>, tail: Vec<Tok>) -> Vec<Tok> {
    head.push(tn(tail.len()));
    head.extend(tail);
    head
}

fn tags_toks(t: &BTreeMap<String, String>) -> Vec<Tok> {
    let mut v = vec![tn(t.len())];
    for (k, x) in t {
        v.push(tb(k.as_bytes()));
        v.push(tb(x.as_bytes()));
    }
    v
}

// ---------------------------------------------------------------- canonical state

fn listener_recs(s: &ConfigState, pool: &Pool) -> Vec<Vec<Tok>> {
    let mut out = vec![];
    for l in s.http_listeners.values() {
        let mut r = vec![
            tn(0), tb(sa(&l.address).as_bytes()), tbool(l.active), tbool(l.expect_proxy),
            match &l.public_address { Some(a) => tb(sa(a).as_bytes()), None => tn(-1) },
            tn(l.front_timeout), tn(l.back_timeout), tn(l.connect_timeout), tn(l.request_timeout),
            tb(l.sticky_name.as_bytes()), tn(-1), tn(-1), tn(-1), tn(-1), tn(-1), tn(-1), tn(0),
        ];
        r.push(tn(8));
        r.extend([
            on(l.h2_max_rst_stream_per_window), on(l.h2_max_concurrent_streams), on(l.h2_initial_connection_window),
            on(l.h2_max_header_list_size), on(l.h2_stream_idle_timeout_seconds), on(l.h2_max_rst_stream_lifetime),
            tn(-1), os(&l.sozu_id_header),
        ]);
        let mut e = vec![ob(l.elide_x_real_ip.or(Some(false))), ob(l.send_x_real_ip.or(Some(false)))];
        e.extend(tags_toks(&l.answers));
        e.extend([tn(0), tn(0), tn(-1)]);
        out.push(with_count(r, e));
    }
    for l in s.https_listeners.values() {
        let h = hsts_toks(&l.hsts);
        let mut r = vec![
            tn(1), tb(sa(&l.address).as_bytes()), tbool(l.active), tbool(l.expect_proxy),
            match &l.public_address { Some(a) => tb(sa(a).as_bytes()), None => tn(-1) },
            tn(l.front_timeout), tn(l.back_timeout), tn(l.connect_timeout), tn(l.request_timeout),
            tb(l.sticky_name.as_bytes()), ob(l.disable_http11), h[0].clone(), h[1].clone(), tn(-1), tn(-1),
            match &l.certificate { Some(c) => tn(pool.idx_of_pem(c)), None => tn(-1) },
            tn(l.alpn_protocols.len()),
        ];
        for p in &l.alpn_protocols {
            r.push(tb(p.as_bytes()));
        }
        r.push(tn(8));
        r.extend([
            on(l.h2_max_rst_stream_per_window), on(l.h2_max_concurrent_streams), on(l.h2_initial_connection_window),
            on(l.h2_max_header_list_size), on(l.h2_stream_idle_timeout_seconds), on(l.h2_max_rst_stream_lifetime),
            ob(l.strict_sni_binding), os(&l.sozu_id_header),
        ]);
        let mut e = vec![ob(l.elide_x_real_ip.or(Some(false))), ob(l.send_x_real_ip.or(Some(false)))];
        e.extend(tags_toks(&l.answers));
        e.push(tn(l.versions.len()));
        e.extend(l.versions.iter().map(|v| tn(*v)));
        e.push(tn(l.cipher_list.len()));
        e.extend(l.cipher_list.iter().map(|c| tb(c.as_bytes())));
        e.push(tn(l.send_tls13_tickets));
        out.push(with_count(r, e));
    }
    for l in s.tcp_listeners.values() {
        let mut r = vec![
            tn(2), tb(sa(&l.address).as_bytes()), tbool(l.active), tbool(l.expect_proxy),
            match &l.public_address { Some(a) => tb(sa(a).as_bytes()), None => tn(-1) },
            tn(l.front_timeout), tn(l.back_timeout), tn(l.connect_timeout), tn(-1),
            tn(-1), tn(-1), tn(-1), tn(-1), tn(-1), tn(-1), tn(-1), tn(0),
        ];
        r.push(tn(8));
        r.extend((0..8).map(|_| tn(-1)));
        r.push(tn(0));
        out.push(r);
    }
    for l in s.udp_listeners.values() {
        let mut r = vec![
            tn(3), tb(sa(&l.address).as_bytes()), tbool(l.active), tn(0),
            match &l.public_address { Some(a) => tb(sa(a).as_bytes()), None => tn(-1) },
            tn(l.front_timeout), tn(l.back_timeout), tn(-1), tn(-1),
            tn(-1), tn(-1), tn(-1), tn(-1), tn(l.max_rx_datagram_size), tn(l.max_flows), tn(-1), tn(0),
        ];
        r.push(tn(8));
        r.extend((0..8).map(|_| tn(-1)));
        r.push(tn(0));
        out.push(r);
    }
    out
}

fn cluster_recs(s: &ConfigState) -> Vec<Vec<Tok>> {
    s.clusters
        .values()
        .map(|c| {
            let mut r = vec![
                tb(c.cluster_id.as_bytes()), tbool(c.sticky_session), tbool(c.https_redirect), on(c.proxy_protocol),
                tn(c.load_balancing), on(c.load_metric), ob(c.http2),
            ];
            match &c.health_check {
                Some(h) => r.extend([
                    tn(1), tb(h.uri.as_bytes()), tn(h.interval), tn(h.timeout), tn(h.healthy_threshold),
                    tn(h.unhealthy_threshold), tn(h.expected_status),
                ]),
                None => r.extend([tn(0), tn(-1), tn(-1), tn(-1), tn(-1), tn(-1), tn(-1)]),
            }
            let mut p = vec![on(c.max_connections_per_ip), on(c.retry_after), on(c.https_redirect_port), os(&c.www_authenticate)];
            match &c.udp {
                Some(u) => p.extend([tn(1), on(u.affinity_key), on(u.responses), on(u.requests), ob(u.send_proxy_protocol)]),
                None => p.extend([tn(-1), tn(-1), tn(-1), tn(-1), tn(-1)]),
            }
            p.extend(tags_toks(&c.answers));
            p.push(tn(c.authorized_hashes.len()));
            p.extend(c.authorized_hashes.iter().map(|h| tb(h.as_bytes())));
            let r = with_count(r, p);
            r
        })
        .collect()
}

fn front_recs(s: &ConfigState) -> Vec<Vec<Tok>> {
    let mut out = vec![];
    for (https, map) in [(0, &s.http_fronts), (1, &s.https_fronts)] {
        for f in map.values() {
            let h = hsts_toks(&f.hsts);
            let mut r = vec![
                tn(https), tb(f.address.to_string().as_bytes()), tb(f.hostname.as_bytes()), tn(f.path.kind),
                tb(f.path.value.as_bytes()), os(&f.method), os(&f.cluster_id), tn(f.position as i32),
                h[0].clone(), h[1].clone(),
            ];
            r.extend(tags_toks(&f.tags.clone().unwrap_or_default()));
            let mut p = vec![
                on(f.redirect), on(f.redirect_scheme), ob(f.required_auth), os(&f.rewrite_host), os(&f.rewrite_path),
                on(f.rewrite_port), os(&f.redirect_template), tn(f.headers.len()),
            ];
            for h in &f.headers {
                p.extend([tn(h.position), tb(h.key.as_bytes()), tb(h.val.as_bytes())]);
            }
            let r = with_count(r, p);
            out.push(r);
        }
    }
    out
}

fn tfront_recs(s: &ConfigState) -> Vec<Vec<Tok>> {
    let mut out = vec![];
    for fs in s.tcp_fronts.values() {
        for f in fs {
            let mut r = vec![tn(0), tb(f.cluster_id.as_bytes()), tb(f.address.to_string().as_bytes())];
            r.extend(tags_toks(&f.tags));
            out.push(r);
        }
    }
    for fs in s.udp_fronts.values() {
        for f in fs {
            let mut r = vec![tn(1), tb(f.cluster_id.as_bytes()), tb(f.address.to_string().as_bytes())];
            r.extend(tags_toks(&f.tags));
            out.push(r);
        }
    }
    out
}

fn backend_recs(s: &ConfigState) -> Vec<Vec<Tok>> {
    let mut out = vec![];
    for bs in s.backends.values() {
        for b in bs {
            out.push(vec![
                tb(b.cluster_id.as_bytes()), tb(b.backend_id.as_bytes()), tb(b.address.to_string().as_bytes()),
                on(b.load_balancing_parameters.map(|p| p.weight)), os(&b.sticky_id), ob(b.backup),
            ]);
        }
    }
    out
}

fn cert_recs(s: &ConfigState, pool: &Pool) -> Vec<Vec<Tok>> {
    let mut out = vec![];
    for (addr, m) in &s.certificates {
        for fp in m.keys() {
            out.push(vec![tb(addr.to_string().as_bytes()), tn(*pool.by_fp.get(&fp.0).unwrap_or(&-2))]);
        }
    }
    out
}

/// canonical record of one generated message + the result of dispatching it
fn msg_rec(m: &WorkerRequest, r: &Result<(), StateError>, pool: &Pool) -> Vec<Tok> {
    let rc = tn(res_code(r));
    let front = |k: i128, f: &sozu_command_lib::proto::command::RequestHttpFrontend| {
        vec![
            tn(k), tb(sa(&f.address).as_bytes()), tb(f.hostname.as_bytes()), tn(f.path.kind), tb(f.path.value.as_bytes()),
            os(&f.method),
        ]
    };
    let mut v = match &m.content.request_type {
        Some(RequestType::AddHttpListener(l)) => vec![tn(0), tb(sa(&l.address).as_bytes())],
        Some(RequestType::AddHttpsListener(l)) => vec![tn(1), tb(sa(&l.address).as_bytes())],
        Some(RequestType::AddTcpListener(l)) => vec![tn(2), tb(sa(&l.address).as_bytes())],
        Some(RequestType::AddUdpListener(l)) => vec![tn(3), tb(sa(&l.address).as_bytes())],
        Some(RequestType::AddCluster(c)) => vec![tn(4), tb(c.cluster_id.as_bytes())],
        Some(RequestType::AddHttpFrontend(f)) => front(5, f),
        Some(RequestType::AddHttpsFrontend(f)) => front(6, f),
        Some(RequestType::AddCertificate(a)) => {
            vec![tn(7), tb(sa(&a.address).as_bytes()), tn(pool.idx_of_pem(&a.certificate.certificate))]
        }
        Some(RequestType::AddTcpFrontend(f)) => vec![tn(8), tb(f.cluster_id.as_bytes()), tb(sa(&f.address).as_bytes())],
        Some(RequestType::AddUdpFrontend(f)) => vec![tn(9), tb(f.cluster_id.as_bytes()), tb(sa(&f.address).as_bytes())],
        Some(RequestType::AddBackend(b)) => {
            vec![tn(10), tb(b.cluster_id.as_bytes()), tb(b.backend_id.as_bytes()), tb(sa(&b.address).as_bytes())]
        }
        Some(RequestType::ActivateListener(a)) => vec![tn(11), tn(a.proxy), tb(sa(&a.address).as_bytes())],
        Some(RequestType::ConfigureMetrics(_)) => vec![tn(12)],
        _ => vec![tn(99)],
    };
    v.push(rc);
    v
}

fn state_eq(a: &ConfigState, b: &ConfigState) -> bool {
    let mut x = a.clone();
    let mut y = b.clone();
    x.request_counts.clear();
    y.request_counts.clear();
    x == y
}

// ---------------------------------------------------------------- declaration (oracle side)

#[derive(Default)]
struct Decl {
    listeners: Vec<(String, i128)>,
    clusters: Vec<(String, i128)>,
    /// cluster, addr, hostname, path, kind, method, cert idx, has key
    fronts: Vec<(String, String, Option<String>, Option<String>, i128, Option<String>, i128, bool)>,
    /// cluster, addr, backend_id
    backends: Vec<(String, String, Option<String>)>,
    activate: bool,
    expect_reject: bool,
    /// declared buffer_size (-1 absent) and, per UDP listener, the declared max_rx_datagram_size (-1 absent)
    buffer: i128,
    udp_rx: Vec<(String, i128)>,
}

fn s_of(t: &Tok) -> String {
    String::from_utf8_lossy(t.b()).to_string()
}
fn opt_s(t: &Tok) -> Option<String> {
    match t {
        Tok::B(_) => Some(s_of(t)),
        _ => None,
    }
}

struct Loaded {
    msgs: Vec<WorkerRequest>,
    results: Vec<Result<(), StateError>>,
    state: ConfigState,
}

fn oracle(d: &Decl, ld: &Loaded, pool: &Pool, out: &mut Out) {
    let s = &ld.state;
    // 1. every generated message is accepted by a fresh instance
    for (m, r) in ld.msgs.iter().zip(&ld.results) {
        if let Err(e) = r {
            out.viol("rejected-message", &format!("{} rejected by a fresh ConfigState: {e}", m.id));
            break;
        }
    }
    // 2. ids well-formed and pairwise distinct
    let mut seen = BTreeSet::new();
    for m in &ld.msgs {
        if !m.id.starts_with("CONFIG-") || m.id[7..].parse::<u128>().is_err() {
            out.viol("ids-format", &format!("message id {:?} is not CONFIG-<n>", m.id));
            break;
        }
        if !seen.insert(m.id.clone()) {
            out.viol("ids-duplicate", &format!("message id {} used twice among {} messages", m.id, ld.msgs.len()));
            break;
        }
    }
    // structural order: an object is created before it is referenced
    let mut added: BTreeSet<(i32, String)> = BTreeSet::new();
    for m in &ld.msgs {
        match &m.content.request_type {
            Some(RequestType::AddHttpListener(l)) => { added.insert((0, sa(&l.address))); }
            Some(RequestType::AddHttpsListener(l)) => { added.insert((1, sa(&l.address))); }
            Some(RequestType::AddTcpListener(l)) => { added.insert((2, sa(&l.address))); }
            Some(RequestType::AddUdpListener(l)) => { added.insert((3, sa(&l.address))); }
            Some(RequestType::AddCluster(c)) => { added.insert((10, c.cluster_id.clone())); }
            Some(RequestType::AddCertificate(c)) => { added.insert((11, sa(&c.address))); }
            Some(RequestType::AddHttpsFrontend(f)) => {
                if !added.contains(&(11, sa(&f.address))) {
                    out.viol("order", &format!("AddHttpsFrontend {} {} precedes every AddCertificate of its address", sa(&f.address), f.hostname));
                }
                if let Some(id) = &f.cluster_id {
                    if !added.contains(&(10, id.clone())) {
                        out.viol("order", &format!("a frontend of cluster {id} precedes its AddCluster"));
                    }
                }
            }
            Some(RequestType::AddBackend(b)) => {
                if !added.contains(&(10, b.cluster_id.clone())) {
                    out.viol("order", &format!("a backend of cluster {} precedes its AddCluster", b.cluster_id));
                }
            }
            Some(RequestType::ActivateListener(a)) => {
                if !added.contains(&(a.proxy, sa(&a.address))) {
                    out.viol("order", &format!("ActivateListener {} precedes its AddListener", sa(&a.address)));
                }
            }
            _ => {}
        }
    }
    // 3. the state contains exactly the declared objects
    let decl_clusters: BTreeSet<String> = d.clusters.iter().map(|c| c.0.clone()).collect();
    let st_clusters: BTreeSet<String> = s.clusters.keys().cloned().collect();
    if decl_clusters != st_clusters {
        out.viol("exact-clusters", &format!("declared {} clusters, state has {}", decl_clusters.len(), st_clusters.len()));
    }
    let mut want_l: BTreeSet<String> = d.listeners.iter().map(|l| l.0.clone()).collect();
    for f in &d.fronts {
        want_l.insert(f.1.clone());
    }
    let mut have_l: Vec<String> = vec![];
    have_l.extend(s.http_listeners.keys().map(|a| a.to_string()));
    have_l.extend(s.https_listeners.keys().map(|a| a.to_string()));
    have_l.extend(s.tcp_listeners.keys().map(|a| a.to_string()));
    have_l.extend(s.udp_listeners.keys().map(|a| a.to_string()));
    let have_set: BTreeSet<String> = have_l.iter().cloned().collect();
    if have_set.len() != have_l.len() {
        out.viol("exact-listeners", "one address has listeners of two protocols");
    }
    if have_set != want_l {
        out.viol("exact-listeners", &format!("declared/implied {} listener addresses, state has {}", want_l.len(), have_set.len()));
    }
    for (addr, proto) in &d.listeners {
        let a: SocketAddr = addr.parse().unwrap();
        let ok = match proto {
            0 => s.http_listeners.contains_key(&a),
            1 => s.https_listeners.contains_key(&a),
            2 => s.tcp_listeners.contains_key(&a),
            3 => s.udp_listeners.contains_key(&a),
            _ => false,
        };
        if !ok {
            out.viol("exact-listeners", &format!("declared listener {addr} (protocol {proto}) is not in the state"));
        }
    }
    // documented defaults and clamps, recomputed here from the declaration (doc/configure.md): a UDP listener's
    // max_rx_datagram_size defaults to 1500 and is clamped to the file's buffer_size (default 16393)
    let buffer = if d.buffer < 0 { 16393 } else { d.buffer };
    for (addr, rx) in &d.udp_rx {
        let a: SocketAddr = addr.parse().unwrap();
        let want = (if *rx < 0 { 1500 } else { *rx }).min(buffer);
        if let Some(l) = s.udp_listeners.get(&a) {
            if l.max_rx_datagram_size as i128 != want {
                out.viol("documented-default", &format!(
                    "UDP listener {addr}: max_rx_datagram_size is {} in the state; declared {}, buffer_size {}: documented value min(declared or 1500, buffer_size) = {want}",
                    l.max_rx_datagram_size, if *rx < 0 { "nothing".to_string() } else { rx.to_string() }, buffer));
            }
        }
    }
    // nothing a frontend declares about its certificate is dropped: the stored certificate of (address, fingerprint)
    // carries the TLS versions and the chain of every AddCertificate the file generated for it
    for m in &ld.msgs {
        if let Some(RequestType::AddCertificate(c)) = &m.content.request_type {
            let a: SocketAddr = c.address.into();
            let Ok(fp) = c.certificate.fingerprint() else { continue };
            if let Some(stored) = s.certificates.get(&a).and_then(|b| b.get(&fp)) {
                if stored.versions != c.certificate.versions || stored.certificate_chain != c.certificate.certificate_chain {
                    out.viol("certificate-declaration-dropped", &format!(
                        "{}: the file declares the certificate {} on {} with TLS versions {:?}, the state keeps {:?} for it (declared by another frontend of that address)",
                        m.id, fp, a, c.certificate.versions, stored.versions));
                    break;
                }
            }
        }
    }
    let act = |b: bool| b == d.activate;
    if !(s.http_listeners.values().all(|l| act(l.active))
        && s.https_listeners.values().all(|l| act(l.active))
        && s.tcp_listeners.values().all(|l| act(l.active))
        && s.udp_listeners.values().all(|l| act(l.active)))
    {
        out.viol("exact-active", "a listener's active flag differs from activate_listeners");
    }
    let n_fronts = s.http_fronts.len()
        + s.https_fronts.len()
        + s.tcp_fronts.values().map(|v| v.len()).sum::<usize>()
        + s.udp_fronts.values().map(|v| v.len()).sum::<usize>();
    if n_fronts != d.fronts.len() {
        out.viol("exact-frontends", &format!("declared {} frontends, state has {}", d.fronts.len(), n_fronts));
    }
    let proto_of: BTreeMap<&str, i128> = d.clusters.iter().map(|c| (c.0.as_str(), c.1)).collect();
    for (cl, addr, host, path, kind, method, _cert, _key) in &d.fronts {
        let a: SocketAddr = addr.parse().unwrap();
        if proto_of.get(cl.as_str()) == Some(&0) {
            // looked up by VALUE (address, hostname, path rule, method), not through the spelling of the state's key
            let k = match kind { 1 => "R", 2 => "=", _ => "P" };
            let want_kind: i32 = match kind { 1 => 1, 2 => 2, _ => 0 };
            let (h, p) = (host.clone().unwrap_or_default(), path.clone().unwrap_or_default());
            let key = format!("{a} {h} {k}{p} {}", method.clone().unwrap_or_default());
            let f = s.http_fronts.values().chain(s.https_fronts.values()).find(|f| {
                f.address == a && f.hostname == h && f.path.kind == want_kind && f.path.value == p && f.method == *method
                    && f.cluster_id.as_deref() == Some(cl.as_str())
            });
            match f {
                Some(f) if f.cluster_id.as_deref() == Some(cl.as_str()) => {}
                _ => out.viol("exact-frontends", &format!("declared frontend {key} of cluster {cl} is not in the state")),
            }
        } else {
            let n = s.tcp_fronts.get(cl).map(|v| v.iter().filter(|f| f.address == a).count()).unwrap_or(0)
                + s.udp_fronts.get(cl).map(|v| v.iter().filter(|f| f.address == a).count()).unwrap_or(0);
            if n == 0 {
                out.viol("exact-frontends", &format!("declared tcp/udp frontend {a} of cluster {cl} is not in the state"));
            }
        }
    }
    let n_back: usize = s.backends.values().map(|v| v.len()).sum();
    if n_back != d.backends.len() {
        out.viol("exact-backends", &format!("declared {} backends, state has {}", d.backends.len(), n_back));
    }
    for (cl, addr, _id) in &d.backends {
        let a: SocketAddr = addr.parse().unwrap();
        if !s.backends.get(cl).map(|v| v.iter().any(|b| b.address == a)).unwrap_or(false) {
            out.viol("exact-backends", &format!("declared backend {a} of cluster {cl} is not in the state"));
        }
    }
    let want_certs: BTreeSet<(String, i128)> =
        d.fronts.iter().filter(|f| f.6 >= 0 && f.7).map(|f| (f.1.parse::<SocketAddr>().unwrap().to_string(), f.6)).collect();
    let have_certs: BTreeSet<(String, i128)> = cert_recs(s, pool).iter().map(|r| (s_of(&r[0]), r[1].n())).collect();
    // listener-level certificates may be inherited by frontends without one: only require inclusion + same count when no inheritance
    if !want_certs.is_subset(&have_certs) {
        out.viol("exact-certificates", "a declared (address, certificate) pair is not in the state");
    }
    // every frontend sits on a listener of its own kind, every object belongs to a declared cluster
    for f in s.http_fronts.values() {
        if !s.http_listeners.contains_key(&f.address) {
            out.viol("front-without-listener", &format!("http frontend {} {} has no http listener", f.address, f.hostname));
        }
    }
    for f in s.https_fronts.values() {
        if !s.https_listeners.contains_key(&f.address) {
            out.viol("front-without-listener", &format!("https frontend {} {} has no https listener", f.address, f.hostname));
        }
    }
    for f in s.tcp_fronts.values().flatten() {
        if !s.tcp_listeners.contains_key(&f.address) {
            out.viol("front-without-listener", &format!("tcp frontend {} has no tcp listener", f.address));
        }
    }
    for f in s.udp_fronts.values().flatten() {
        if !s.udp_listeners.contains_key(&f.address) {
            out.viol("front-without-listener", &format!("udp frontend {} has no udp listener", f.address));
        }
    }
    for id in s.backends.keys().chain(s.tcp_fronts.keys()).chain(s.udp_fronts.keys()) {
        if !s.clusters.contains_key(id) {
            out.viol("orphan", &format!("objects of cluster {id} exist but the cluster does not"));
        }
    }
    for f in s.http_fronts.values().chain(s.https_fronts.values()) {
        if let Some(id) = &f.cluster_id {
            if !s.clusters.contains_key(id) {
                out.viol("orphan", &format!("frontend {} routes to cluster {id} which does not exist", f.hostname));
            }
        }
    }
}

// ---------------------------------------------------------------- the run

fn run(case: &Case, out: &mut Out) {
    let dir = std::env::temp_dir().join(format!("c20-{}", std::process::id()));
    std::fs::create_dir_all(&dir).unwrap();
    let path = dir.join(format!("{}.toml", case.id.replace(|c: char| !c.is_ascii_alphanumeric(), "_")));
    let path_s = path.to_str().unwrap().to_string();
    let mut d = Decl { activate: true, ..Default::default() };
    let mut pool = Pool { by_fp: BTreeMap::new() };
    let mut loaded: Option<Loaded> = None;
    let empty = ConfigState::new();
    for op in &case.ops {
        let a = &op.args;
        match op.name.as_str() {
            "pool" => {
                for (i, t) in a.iter().enumerate() {
                    let pem = std::fs::read_to_string(s_of(t)).expect("pool certificate readable");
                    let c = CertificateAndKey { certificate: pem, ..Default::default() };
                    let fp = c.fingerprint().expect("pool certificate parses");
                    if pool.by_fp.insert(fp.0, i as i128).is_some() {
                        out.note("invalid-case: two pool certificates have the same fingerprint");
                    }
                }
                out.obs(&[]);
            }
            "expect" => {
                d.expect_reject = a[0].s() == "reject";
                out.obs(&[]);
            }
            "g" => {
                d.activate = a[0].n() != 0;
                d.buffer = a[2].n();
                out.obs(&[]);
            }
            "l" => {
                d.listeners.push((s_of(&a[0]), a[1].n()));
                if a[1].n() == 3 {
                    d.udp_rx.push((s_of(&a[0]), a[12].n()));
                }
                out.obs(&[]);
            }
            "c" => {
                d.clusters.push((s_of(&a[0]), a[1].n()));
                out.obs(&[]);
            }
            "f" => {
                d.fronts.push((
                    s_of(&a[0]), s_of(&a[1]), opt_s(&a[2]), opt_s(&a[3]), a[4].n(), opt_s(&a[5]), a[6].n(), a[7].n() != 0,
                ));
                out.obs(&[]);
            }
            "b" => {
                d.backends.push((s_of(&a[0]), s_of(&a[1]), opt_s(&a[3])));
                out.obs(&[]);
            }
            "toml" => {
                std::fs::write(&path, a[0].b()).unwrap();
                out.obs(&[]);
            }
            "load" => {
                match Config::load_from_path(&path_s) {
                    Err(e) => {
                        out.obs(&[ts("err"), ts(err_class(&e))]);
                    }
                    Ok(cfg) => match cfg.generate_config_messages() {
                        Err(e) => out.obs(&[ts("generr"), ts(err_class(&e))]),
                        Ok(msgs) => {
                            let mut state = ConfigState::new();
                            let results: Vec<_> = msgs.iter().map(|m| state.dispatch(&m.content)).collect();
                            out.obs(&[ts("ok"), tn(msgs.len())]);
                            let ld = Loaded { msgs, results, state };
                            if d.expect_reject {
                                out.viol("violation-accepted", "a file violating a documented constraint was accepted by the loader");
                            } else {
                                oracle(&d, &ld, &pool, out);
                            }
                            loaded = Some(ld);
                        }
                    },
                }
            }
            "ids" => {
                let v: Vec<Tok> = match &loaded {
                    Some(ld) => ld.msgs.iter().map(|m| tn(m.id.strip_prefix("CONFIG-").and_then(|x| x.parse::<i128>().ok()).unwrap_or(-1))).collect(),
                    None => vec![],
                };
                out.obs(&v);
            }
            "results" => {
                let v = match &loaded {
                    Some(ld) => flat_sorted(ld.msgs.iter().zip(&ld.results).map(|(m, r)| msg_rec(m, r, &pool)).collect()),
                    None => vec![],
                };
                out.obs(&v);
            }
            "listeners" | "clusters" | "fronts" | "tfronts" | "backends" | "certs" => {
                let s = loaded.as_ref().map(|l| &l.state).unwrap_or(&empty);
                let recs = match op.name.as_str() {
                    "listeners" => listener_recs(s, &pool),
                    "clusters" => cluster_recs(s),
                    "fronts" => front_recs(s),
                    "tfronts" => tfront_recs(s),
                    "backends" => backend_recs(s),
                    _ => cert_recs(s, &pool),
                };
                out.obs(&flat_sorted(recs));
            }
            // load the same file again (fresh Config, hence a fresh HashMap order) over the state it produced
            "reload" => match &mut loaded {
                None => out.obs(&[]),
                Some(ld) => {
                    let cfg = Config::load_from_path(&path_s).expect("second load of an accepted file");
                    let msgs = cfg.generate_config_messages().expect("second generate");
                    let before = ld.state.clone();
                    let results: Vec<_> = msgs.iter().map(|m| ld.state.dispatch(&m.content)).collect();
                    let changed = !state_eq(&before, &ld.state);
                    if changed {
                        out.viol("reload-changed", "loading the same file over the state it produced changed the state");
                    }
                    let mut v = vec![tn(msgs.len()), tbool(changed)];
                    v.extend(flat_sorted(msgs.iter().zip(&results).map(|(m, r)| msg_rec(m, r, &pool)).collect()));
                    out.obs(&v);
                }
            },
            other => panic!("unknown op {other}"),
        }
    }
    let _ = std::fs::remove_file(&path);
}

/// `FileConfig::load_from_path` prints TOML errors with `println!`: the protocol goes to
/// $VERIF_OUT (or to a private copy of stdout) and fd 1 is sent to /dev/null.
fn main() {
    use std::io::Write;
    use std::os::fd::FromRawFd;
    let saved = unsafe { libc::dup(1) };
    let null = std::fs::OpenOptions::new().write(true).open("/dev/null").unwrap();
    unsafe { libc::dup2(std::os::fd::AsRawFd::as_raw_fd(&null), 1) };
    if std::env::var_os("VERIF_OUT").is_some() {
        drive(run);
        return;
    }
    let mut w = std::io::BufWriter::new(unsafe { std::fs::File::from_raw_fd(saved) });
    let path = std::env::args().nth(1).expect("usage: c20 <cases-file>");
    let cases = read_cases(&path);
    std::panic::set_hook(Box::new(|_| {}));
    for c in &cases {
        let mut out = Out::default();
        let r = std::panic::catch_unwind(std::panic::AssertUnwindSafe(|| run(c, &mut out)));
        writeln!(w, "case {}", c.id).unwrap();
        for l in &out.lines {
            writeln!(w, "{l}").unwrap();
        }
        if let Err(e) = r {
            let msg = e
                .downcast_ref::<String>()
                .cloned()
                .or_else(|| e.downcast_ref::<&str>().map(|s| s.to_string()))
                .unwrap_or_else(|| "panic".into());
            writeln!(w, "panic {}", msg.replace('\n', " ")).unwrap();
        }
        writeln!(w, "end").unwrap();
    }
    w.flush().unwrap();
}
