(** C04 — property theorems (statements only; proofs are in C04/Proofs.v).
    Every statement is quantified over the regex oracle [re_match]. *)
From Coq Require Import List Arith NArith ZArith Lia.
From SV Require Import Common.Trie C04.Model C04.Proofs.
Import ListNotations.

(** Within one host leaf, [Router::lookup]'s selection loop returns a matching
    rule of maximal rank (EQUALS > REGEX > longest PREFIX, then method-specific
    > method-agnostic), or nothing when no rule matches — for every rule list,
    path and method. *)
Theorem selection_is_documented_choice :
  forall re_match path m rules,
    is_best re_match path m rules (select_loop re_match rules path m (0, 0, 0)%nat None).
Proof. exact select_is_best. Qed.

(** The choice depends on the *set* of rules only (any two lists with the same
    members give the same answer), provided no two matching rules of equal rank
    decide differently. *)
Theorem selection_order_independent :
  forall re_match path m rules rules',
    (forall e, In e rules <-> In e rules') -> no_ties re_match path m rules ->
    select_loop re_match rules path m (0, 0, 0)%nat None = select_loop re_match rules' path m (0, 0, 0)%nat None.
Proof. exact select_order_independent. Qed.

(** ... and the only ties possible between two distinct (path, method) rules
    are between two REGEX rules, which the documentation leaves undefined. *)
Theorem ties_only_between_regex_rules :
  forall re_match path m p1 m1 p2 m2 rk,
    rule_rank re_match p1 m1 path m = Some rk -> rule_rank re_match p2 m2 path m = Some rk ->
    (p1, m1) <> (p2, m2) -> p_kind p1 = PRegex /\ p_kind p2 = PRegex.
Proof. exact tie_only_regex. Qed.

(** non-vacuity: EQUALS beats an agnostic PREFIX of the full path, in both orders *)
Example selection_nonvacuous :
  let eq := (mkprule PEquals [47; 97]%N, None, mkroute (Some [1%N]) 0%Z false) in
  let pre := (mkprule PPrefix [47; 97]%N, Some [71]%N, mkroute (Some [2%N]) 0%Z false) in
  select_loop (fun _ _ => false) [eq; pre] [47; 97]%N [71]%N (0, 0, 0)%nat None = Some (mkroute (Some [1%N]) 0%Z false) /\
  select_loop (fun _ _ => false) [pre; eq] [47; 97]%N [71]%N (0, 0, 0)%nat None = Some (mkroute (Some [1%N]) 0%Z false).
Proof. split; reflexivity. Qed.
