(** C04 — executable model of [lib/src/router/mod.rs] ([Router]).

    Mirrors, in the code's order: [PathRule::from_config], [DomainRule::from_str]
    (+ [convert_regex_domain_rule]), the three [PartialEq] impls, [matches] of
    the three rule kinds, [add_http_front] / [remove_http_front] and the six
    [add/remove_{pre,post,tree}_rule], and [Router::lookup] with its selection
    loop.  The host trie is [SV.Common.Trie].

    Oracles (Section variables): [re_ok src] — [Regex::new src] succeeds;
    [re_match src s] — that regex [is_match]es [s].  [idna::domain_to_ascii] is
    the identity on the hostnames considered (lower-case ASCII; the driver
    rejects any case where it is not).  No proofs in this file. *)
From Coq Require Import List Arith NArith ZArith Bool Lia.
From SV Require Import Common.Trie.
Import ListNotations.

(** ** Rules *)
Inductive pkind := PPrefix | PRegex | PEquals.
Record prule := mkprule { p_kind : pkind; p_val : bytes }.   (* Regex: the source *)

Inductive drule :=
| DAny
| DExact (s : bytes)
| DWild (s : bytes)        (* stored with its leading '*' *)
| DRegex (src : bytes).

Definition mrule := option bytes.                            (* MethodRule.inner *)

Inductive position := Pre | Post | Tree.

(** What a matched frontend decides; built once by [add_http_front]
    ([Route::ClusterId] / [Route::Deny] / [Route::Frontend]) and observed
    through [RouteResult::{cluster_id, redirect, required_auth}]. *)
Record route := mkroute { r_cluster : option bytes; r_redirect : Z; r_auth : bool }.

(** the fields of [HttpFrontend] that the router reads *)
Record frontend := mkfront {
  f_pos : position;
  f_host : bytes;
  f_pkind : Z;               (* PathRuleKind as sent: 0 PREFIX, 1 REGEX, 2 EQUALS, other = invalid *)
  f_pval : bytes;
  f_method : option bytes;
  f_cluster : option bytes;
  f_redirect : option Z;
  f_auth : option bool }.

(** [PartialEq for PathRule] *)
Definition prule_eqb (a b : prule) : bool :=
  match p_kind a, p_kind b with
  | PPrefix, PPrefix => beq (p_val a) (p_val b)
  | PRegex, PRegex => beq (p_val a) (p_val b)
  | _, _ => false
  end.

(** [PartialEq for DomainRule] *)
Definition drule_eqb (a b : drule) : bool :=
  match a, b with
  | DAny, DAny => true
  | DWild s1, DWild s2 => beq s1 s2
  | DExact s1, DExact s2 => beq s1 s2
  | DRegex r1, DRegex r2 => beq r1 r2
  | _, _ => false
  end.

(** derived [PartialEq for MethodRule] (methods are canonical byte strings) *)
Definition mrule_eqb (a b : mrule) : bool :=
  match a, b with
  | None, None => true
  | Some x, Some y => beq x y
  | _, _ => false
  end.

Fixpoint starts_with (pre l : bytes) : bool :=
  match pre, l with
  | [], _ => true
  | x :: p, y :: r => N.eqb x y && starts_with p r
  | _ :: _, [] => false
  end.

Fixpoint has_byte (c : N) (l : bytes) : bool :=
  match l with [] => false | x :: r => N.eqb x c || has_byte c r end.

(** [hostname.strip_suffix(suffix)] *)
Definition strip_suffix (suf l : bytes) : option bytes :=
  let n := (length l - length suf)%nat in
  if (length suf <=? length l)%nat && beq (skipn n l) suf then Some (firstn n l) else None.

Inductive pres := RNone | RRegex | REquals | RPrefix (n : nat).
Inductive mres := MAll | MEquals | MNone.

Section Router.
  Variable re_ok : bytes -> bool.
  Variable re_match : bytes -> bytes -> bool.

  (** [PathRule::matches] *)
  Definition prule_matches (r : prule) (path : bytes) : pres :=
    match p_kind r with
    | PPrefix => if starts_with (p_val r) path then RPrefix (length (p_val r)) else RNone
    | PRegex => if re_match (p_val r) path then RRegex else RNone
    | PEquals => if beq path (p_val r) then REquals else RNone
    end.
  Definition pres_some (r : pres) : bool := match r with RNone => false | _ => true end.

  (** [MethodRule::matches] *)
  Definition mrule_matches (r : mrule) (m : bytes) : mres :=
    match r with
    | None => MAll
    | Some x => if beq m x then MEquals else MNone
    end.
  Definition mres_some (r : mres) : bool := match r with MNone => false | _ => true end.

  (** [DomainRule::matches] *)
  Definition drule_matches (d : drule) (h : bytes) : bool :=
    match d with
    | DAny => true
    | DWild s =>
      match strip_suffix (tl s) h with
      | Some pre => negb (is_nil pre) && negb (has_byte DOT pre)
      | None => false
      end
    | DExact s => beq s h
    | DRegex src => re_match src h
    end.

  (** [PathRule::from_config] *)
  Definition parse_path (kind : Z) (v : bytes) : option prule :=
    if (kind =? 0)%Z then Some (mkprule PPrefix v)
    else if (kind =? 1)%Z then (if re_ok v then Some (mkprule PRegex v) else None)
    else if (kind =? 2)%Z then Some (mkprule PEquals v)
    else None.

  (** [convert_regex_domain_rule]: [Some (Some src)], [Some None] = [None] of
      the code, [None] = index out of bounds (panic). *)
  Fixpoint break_at (c : N) (l : bytes) : bytes * bytes :=     (* (before c, from c) *)
    match l with
    | [] => ([], [])
    | x :: r => if N.eqb x c then ([], l) else let '(a, b) := break_at c r in (x :: a, b)
    end.

  Fixpoint conv_regex (fuel : nat) (rest acc : bytes) : option (option bytes) :=
    match fuel with
    | O => None
    | S f =>
      match rest with
      | [] => None                                   (* s[index] with index == len *)
      | c :: r =>
        let step (acc' rest' : bytes) : option (option bytes) :=
            match rest' with
            | [] => Some (Some (acc' ++ [92; 122]%N))           (* "\\z" *)
            | d :: r' => if N.eqb d DOT then conv_regex f r' (acc' ++ [92; 46]%N)   (* "\\." *)
                         else Some None
            end in
        if N.eqb c SLASH then
          let '(body, after) := break_at SLASH r in
          match after with
          | [] => Some None                          (* no closing '/' *)
          | _ :: after' => step (acc ++ body) after'
          end
        else
          let '(label, after) := break_at DOT rest in
          step (acc ++ label) after
      end
    end.

  Inductive dparse := DOk (d : drule) | DErr | DPanic.

  (** [DomainRule::from_str] *)
  Definition parse_domain (s : bytes) : dparse :=
    if beq s [STAR] then DOk DAny
    else if has_byte SLASH s then
      match conv_regex (S (length s)) s [92; 65]%N with      (* "\\A" *)
      | None => DPanic
      | Some None => DErr
      | Some (Some src) => if re_ok src then DOk (DRegex src) else DErr
      end
    else if has_byte STAR s then
      match s with
      | c :: _ => if N.eqb c STAR then DOk (DWild s) else DErr
      | [] => DErr
      end
    else DOk (DExact s).

  (** the route built by [add_http_front] *)
  Definition mk_route (fr : frontend) : route :=
    let auth := match f_auth fr with Some b => b | None => false end in
    let has_policy := is_some (f_redirect fr) || auth in
    if has_policy then
      let red := match f_redirect fr with
                 | Some r => if ((0 <=? r) && (r <=? 4))%Z then r else 0%Z
                 | None => 0%Z end in
      let deny := (red =? 2)%Z || (negb (is_some (f_cluster fr)) && (red =? 0)%Z) in
      if deny then mkroute (f_cluster fr) 2 auth else mkroute (f_cluster fr) red auth
    else
      match f_cluster fr with
      | Some c => mkroute (Some c) 0 false
      | None => mkroute None 2 false
      end.

  (** ** Router *)
  Definition leafv := list (prule * mrule * route).
  Definition flat := list (drule * prule * mrule * route).
  Record router := mkrouter { pre : flat; tree : trie leafv; post : flat }.
  Definition empty_router : router := mkrouter [] root [].

  Definition same_flat (d : drule) (p : prule) (m : mrule) (e : drule * prule * mrule * route) : bool :=
    let '(d', p', m', _) := e in drule_eqb d' d && prule_eqb p' p && mrule_eqb m' m.
  Definition same_leaf (p : prule) (m : mrule) (e : prule * mrule * route) : bool :=
    let '(p', m', _) := e in prule_eqb p' p && mrule_eqb m' m.

  (** [add_pre_rule] / [add_post_rule] *)
  Definition add_flat (l : flat) d p m r : flat * bool :=
    if existsb (same_flat d p m) l then (l, false) else (l ++ [(d, p, m, r)], true).

  (** [remove_pre_rule] / [remove_post_rule]: the first identical entry *)
  Fixpoint remove_first {A} (f : A -> bool) (l : list A) : list A * bool :=
    match l with
    | [] => ([], false)
    | x :: r => if f x then (r, true) else let '(r', b) := remove_first f r in (x :: r', b)
    end.
  Definition remove_flat (l : flat) d p m : flat * bool := remove_first (same_flat d p m) l.

  Inductive tres := TOk (t : trie leafv) (b : bool) | TPanic.

  (** [add_tree_rule] (the result of [domain_insert] is ignored by the code,
      except that a [Failed] from the recursion panics) *)
  Definition add_tree_rule (t : trie leafv) (host : bytes) p m r : tres :=
    match lookup_mut re_match t host false with
    | Some (_, paths) =>
      if existsb (same_leaf p m) paths then TOk t false
      else TOk (modify_mut re_match t host false (fun ps => ps ++ [(p, m, r)])) true
    | None =>
      match insert re_ok t host [(p, m, r)] with
      | (_, IPanic) => TPanic
      | (t', _) => TOk t' true
      end
    end.

  (** [remove_tree_rule] *)
  Definition remove_tree_rule (t : trie leafv) (host : bytes) p m : trie leafv :=
    match lookup_mut re_match t host false with
    | Some (_, paths) =>
      let keep := filter (fun e => negb (same_leaf p m e)) paths in
      let t1 := modify_mut re_match t host false (fun _ => keep) in
      if is_nil keep then fst (remove t1 host) else t1
    | None => t
    end.

  Inductive opres := OOk | OErrPath | OErrDomain | OErrAdd | OErrRemove | OPanic.

  (** [add_http_front] *)
  Definition add_front (rt : router) (fr : frontend) : router * opres :=
    match parse_path (f_pkind fr) (f_pval fr) with
    | None => (rt, OErrPath)
    | Some p =>
      match parse_domain (f_host fr) with
      | DPanic => (rt, OPanic)
      | DErr => (rt, OErrDomain)
      | DOk d =>
        let r := mk_route fr in
        let m := f_method fr in
        match f_pos fr with
        | Pre => let '(l, b) := add_flat (pre rt) d p m r in
                 (mkrouter l (tree rt) (post rt), if b then OOk else OErrAdd)
        | Post => let '(l, b) := add_flat (post rt) d p m r in
                  (mkrouter (pre rt) (tree rt) l, if b then OOk else OErrAdd)
        | Tree => match add_tree_rule (tree rt) (f_host fr) p m r with
                  | TPanic => (rt, OPanic)
                  | TOk t b => (mkrouter (pre rt) t (post rt), if b then OOk else OErrAdd)
                  end
        end
      end
    end.

  (** [remove_http_front] *)
  Definition remove_front (rt : router) (fr : frontend) : router * opres :=
    match parse_path (f_pkind fr) (f_pval fr) with
    | None => (rt, OErrPath)
    | Some p =>
      let m := f_method fr in
      match f_pos fr with
      | Tree => (mkrouter (pre rt) (remove_tree_rule (tree rt) (f_host fr) p m) (post rt), OOk)
      | Pre =>
        match parse_domain (f_host fr) with
        | DPanic => (rt, OPanic) | DErr => (rt, OErrDomain)
        | DOk d => let '(l, b) := remove_flat (pre rt) d p m in
                   (mkrouter l (tree rt) (post rt), if b then OOk else OErrRemove)
        end
      | Post =>
        match parse_domain (f_host fr) with
        | DPanic => (rt, OPanic) | DErr => (rt, OErrDomain)
        | DOk d => let '(l, b) := remove_flat (post rt) d p m in
                   (mkrouter (pre rt) (tree rt) l, if b then OOk else OErrRemove)
        end
      end
    end.

  (** the pre / post scans of [Router::lookup] *)
  Fixpoint scan_flat (l : flat) (h path m : bytes) : option route :=
    match l with
    | [] => None
    | (d, p, mr, r) :: rest =>
      if drule_matches d h && pres_some (prule_matches p path) && mres_some (mrule_matches mr m)
      then Some r else scan_flat rest h path m
    end.

  (** the selection loop over one leaf: state = (prefix_length, matched);
      [inl r] = the early [return] *)
  Fixpoint select_loop (rules : leafv) (path m : bytes) (plen : nat) (matched : option route)
    : option route :=
    match rules with
    | [] => matched
    | (p, mr, r) :: rest =>
      match prule_matches p path with
      | RRegex | REquals =>
        match mrule_matches mr m with
        | MEquals => Some r
        | MAll => select_loop rest path m (length path) (Some r)
        | MNone => select_loop rest path m plen matched
        end
      | RPrefix size =>
        if (plen <=? size)%nat then
          match mrule_matches mr m with
          | MEquals | MAll => select_loop rest path m size (Some r)
          | MNone => select_loop rest path m plen matched
          end
        else select_loop rest path m plen matched
      | RNone => select_loop rest path m plen matched
      end
    end.

  (** [Router::lookup]; [None] = [RouteNotFound] *)
  Definition route_lookup (rt : router) (h path m : bytes) : option route :=
    match scan_flat (pre rt) h path m with
    | Some r => Some r
    | None =>
      let in_tree :=
          match lookup re_match (tree rt) h true with
          | Some (_, rules) => select_loop rules path m 0 None
          | None => None
          end in
      match in_tree with
      | Some r => Some r
      | None => scan_flat (post rt) h path m
      end
    end.

End Router.
