//! C07, worker side: does a listener patch that the live proxy answers with an
//! error leave a trace in the live listener?  In-process, on the real
//! `sozu_lib::{http::HttpListener, https::HttpsListener}::update_config`
//! (the function `Server::notify_update_http(s)_listener` calls after
//! `config_state.dispatch`).
//!
//! ops:  http_patch  <connect_timeout> <sticky idx> <answer idx>
//!       https_patch <connect_timeout> <sticky idx> <answer idx> <hsts: 0 none, 1 enabled=Some(true), 2 enabled=None>
//! obs:  ok|err  connect_timeout-after  sticky-changed
use mio::Token;
use sozu_command_lib::proto::command::{
    CustomHttpAnswers, HstsConfig, HttpListenerConfig, HttpsListenerConfig, SocketAddress, UpdateHttpListenerConfig,
    UpdateHttpsListenerConfig,
};
use sozu_command_lib::{proto::command::request::RequestType, state::ConfigState};
use sozu_lib::{http::HttpListener, https::HttpsListener, L7ListenerHandler};
use verif_harness::{drive, tn, ts, Case, Out};

const STICKY: [&str; 2] = ["SOZUBALANCEID", "OTHER"];
const ANSWERS: [&str; 3] = [
    "HTTP/1.1 404 Not Found\r\nCache-Control: no-cache\r\nConnection: close\r\n\r\n",
    "this is not an HTTP response",
    "HTTP/1.1 404 Not Found\r\nX: %NOT_A_VARIABLE_BUT_FINE\r\n\r\n",
];

fn run(c: &Case, out: &mut Out) {
    let addr = SocketAddress::new_v4(127, 0, 0, 1, 8080);
    for op in &c.ops {
        let a: Vec<i128> = op.args.iter().map(|t| t.n()).collect();
        match op.name.as_str() {
            "http_patch" => {
                let cfg = HttpListenerConfig { address: addr, sticky_name: STICKY[0].into(), ..Default::default() };
                let mut l = HttpListener::new(cfg, Token(0)).expect("listener");
                let (ct0, st0) = (l.get_connect_timeout(), l.get_sticky_name().to_string());
                let patch = UpdateHttpListenerConfig {
                    address: addr,
                    connect_timeout: Some(a[0] as u32),
                    sticky_name: Some(STICKY[a[1] as usize % 2].into()),
                    http_answers: Some(CustomHttpAnswers { answer_404: Some(ANSWERS[a[2] as usize % 3].into()), ..Default::default() }),
                    ..Default::default()
                };
                let r = l.update_config(&patch);
                let changed = l.get_connect_timeout() != ct0 || l.get_sticky_name() != st0;
                // what the worker's (and the main process') ConfigState says about the same patch:
                // server.rs applies it first and ignores the result
                let mut st = ConfigState::new();
                let cfg2 = HttpListenerConfig { address: addr, sticky_name: STICKY[0].into(), ..Default::default() };
                st.dispatch(&RequestType::AddHttpListener(cfg2).into()).expect("add listener");
                let before = st.clone();
                let view = st.dispatch(&RequestType::UpdateHttpListener(patch.clone()).into());
                out.obs(&[ts(if r.is_ok() { "ok" } else { "err" }), tn(l.get_connect_timeout()), tn(changed as i128)]);
                if r.is_err() && view.is_ok() && st.http_listeners != before.http_listeners {
                    out.viol("worker-view-drift", "UpdateHttpListener: the worker answers Failure (the proxy rejects the answer template) but config_state.dispatch, applied first and its result ignored, accepted the patch: the queryable view (and the main process' state) keep a patch the live listener refused");
                }
                if let Err(e) = &r {
                    if changed {
                        out.viol("worker-patch-trace", &format!("HttpListener::update_config answered an error ({e}) but the live listener changed: connect_timeout {ct0} -> {}, sticky_name {st0} -> {}", l.get_connect_timeout(), l.get_sticky_name()));
                    }
                }
            }
            "https_patch" => {
                let mut cfg: HttpsListenerConfig = sozu_command_lib::config::ListenerBuilder::new_https(addr)
                    .to_tls(None)
                    .expect("default https listener config");
                cfg.sticky_name = STICKY[0].into();
                let mut l = match HttpsListener::try_new(cfg, Token(0)) {
                    Ok(l) => l,
                    Err(e) => {
                        out.note(&format!("invalid-case: cannot build an HTTPS listener: {e}"));
                        out.obs(&[]);
                        continue;
                    }
                };
                let (ct0, st0) = (l.get_connect_timeout(), l.get_sticky_name().to_string());
                let patch = UpdateHttpsListenerConfig {
                    address: addr,
                    connect_timeout: Some(a[0] as u32),
                    sticky_name: Some(STICKY[a[1] as usize % 2].into()),
                    http_answers: Some(CustomHttpAnswers { answer_404: Some(ANSWERS[a[2] as usize % 3].into()), ..Default::default() }),
                    hsts: match a[3] {
                        0 => None,
                        1 => Some(HstsConfig { enabled: Some(true), max_age: Some(10), ..Default::default() }),
                        _ => Some(HstsConfig { enabled: None, max_age: Some(10), ..Default::default() }),
                    },
                    ..Default::default()
                };
                let r = l.update_config(&patch);
                let changed = l.get_connect_timeout() != ct0 || l.get_sticky_name() != st0;
                out.obs(&[ts(if r.is_ok() { "ok" } else { "err" }), tn(l.get_connect_timeout()), tn(changed as i128)]);
                if let Err(e) = &r {
                    if changed {
                        out.viol("worker-patch-trace", &format!("HttpsListener::update_config answered an error ({e}) but the live listener changed: connect_timeout {ct0} -> {}, sticky_name {st0} -> {}", l.get_connect_timeout(), l.get_sticky_name()));
                    }
                }
            }
            _ => {
                out.note("invalid-case: unknown op");
                out.obs(&[]);
            }
        }
    }
}

fn main() {
    drive(run);
}
