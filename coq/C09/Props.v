(** C09 — property theorems (proofs are in C09/Proofs.v).

    Vocabulary: [run (init nw tm) es] is the hub with [nw] workers and worker
    timeout [tm] after the history [es] of client requests, worker responses
    (any sender, any id, any status, any number of times), worker and client
    disconnections and clock ticks; its second component lists everything the
    hub emitted: [ONotice c rq] / [OFinal c rq st] to client [c] for its
    request number [rq], [OSend w r rq] to worker [w], and [ODone t timed_out]
    when task [t] was finished. *)
From Coq Require Import List Arith NArith Bool Lia.
From SV Require Import C09.Base C09.Gen C09.Model C09.Proofs.
Import ListNotations.

(** 1. Whatever the workers and clients do, a client request gets at most one
    final answer (late, duplicate, foreign-id and unknown-id responses
    included in "whatever"). *)
Theorem one_verdict : forall nw tm es rq,
    length (finals_of rq (snd (run (init nw tm) es))) <= 1.
Proof. exact one_verdict_init. Qed.

(** ... and when a task is finished its verdict is sent to the client that
    asked (unless that client has disconnected). *)
Theorem verdict_reaches_client : forall h e h' os' t raw st,
    step h e = (h', os') -> In (ODone t raw) os' ->
    In st (verdict (t_kind t) (t_err t) (on_finish_flag raw)) ->
    In (t_client t) (gone h') \/ In (OFinal (t_client t) (t_rq t) st) os'.
Proof. exact done_emits_final. Qed.

(** 2. A task with a deadline [d] is finished at the latest by the first loop
    iteration whose clock is past [d], whatever happened in between — unless
    the whole hub has been stopped by a stop request. *)
Theorem no_hang : forall nw tm es0 h0 os0 t d es h os dt h' os',
    run (init nw tm) es0 = (h0, os0) -> In t (tasks h0) -> t_deadline t = Some d ->
    run h0 es = (h, os) -> step h (ETick dt) = (h', os') -> (d < now h + dt)%N ->
    stopping h' = true \/ exists t1 raw, In (ODone t1 raw) (os ++ os') /\ same_task t t1.
Proof. exact no_hang_lemma. Qed.

(** ... and the loop does wake up for it: with no socket event at all, the next wake-up of the
    event loop (its poll timeout, computed from the pending tasks) is no later than the deadline of
    any pending task — whatever tasks without deadline (a soft stop still draining, a configuration
    reload) are pending beside it.  Together with [no_hang]: a task with deadline [d] is finished at
    [d] plus one wake-up, events or not. *)
Theorem wakeup_covers_every_deadline : forall h t d,
    In t (tasks h) -> t_deadline t = Some d ->
    exists w, next_wake h = Some w /\ (w <= d)%N.
Proof. intros h t d Hin Hd. unfold next_wake. rewrite gen_wake. exact (earliest_le _ _ _ Hin Hd). Qed.

Example wakeup_nonvacuous :
  let '(h, _) := run (init 2 1000) [EClient 0 VSoftStop; ETick 300; EClient 1 VWorker; ETick 100; EClient 2 VQuery] in
  List.length (tasks h) = 3 /\ next_wake h = Some 1300%N.
Proof. vm_compute. split; reflexivity. Qed.

(** 3. OK means applied.  If the client of request [rq] is told OK and the
    task is one whose OK claims application (worker verbs, load-state), then
    every request that was scattered for [rq] — one per worker alive at
    dispatch — has been acknowledged by an OK response carrying its id before
    the verdict ... *)
Theorem ok_is_sound : forall nw tm es h os e h' os' c rq,
    run (init nw tm) es = (h, os) -> step h e = (h', os') ->
    In (OFinal c rq SOk) os' ->
    (forall t raw, In (ODone t raw) os' -> t_rq t = rq -> claims_application (t_kind t) = true) ->
    forall w r, In (OSend w r rq) (os ++ os') -> acked (es ++ [e]) r.
Proof. exact ok_is_sound_lemma. Qed.

(** ... the task did not time out, no failure was counted, and every expected
    response was counted as a success. *)
Theorem ok_verdict_counts : forall nw tm es h os e h' os' t raw,
    run (init nw tm) es = (h, os) -> step h e = (h', os') ->
    In (ODone t raw) os' ->
    claims_application (t_kind t) = true ->
    In SOk (verdict (t_kind t) (t_err t) (on_finish_flag raw)) ->
    raw = false /\ t_err t = 0 /\ t_exp t <= t_ok t /\
    forall w r, In (OSend w r (t_rq t)) (os ++ os') -> acked (es ++ [e]) r.
Proof. exact ok_sound_done. Qed.

(** A worker task that timed out, or for which a failure was counted, is
    answered with a failure. *)
Theorem timeout_or_failure_is_failure : forall errors timed_out,
    timed_out = true \/ 1 <= errors ->
    verdict KWorker errors (on_finish_flag timed_out) = [SFailure] /\
    verdict KLoad errors (on_finish_flag timed_out) = [SFailure].
Proof.
  intros errors timed_out H. cbn [verdict]. rewrite gen_worker_fails, gen_load_ok, gen_flag. split.
  - destruct H as [->|H]; [rewrite orb_true_r; reflexivity|].
    destruct (Nat.ltb_spec 0 errors); [reflexivity|lia].
  - destruct H as [->|H]; [rewrite andb_false_r; reflexivity|].
    destruct (Nat.eqb_spec errors 0); [lia|reflexivity].
Qed.

(** Which requests are covered by [no_hang]: every scattering verb gets the
    worker timeout as its deadline — worker verbs, queries / status / metrics,
    hard stop, load-state — except the soft stop, which waits for the sessions
    to drain for as long as that takes (open finding no-deadline-softstop; the
    static-configuration reload, not driven here, is the other one). *)
Theorem deadline_coverage :
  tmo_worker = TDefault /\ tmo_query = TDefault /\ tmo_hardstop = TDefault /\ tmo_load = TDefault /\
  tmo_softstop = TNone /\
  forall h c k h' tid, new_task h c k TDefault = (h', tid) ->
    exists t, In t (tasks h') /\ t_id t = tid /\ t_deadline t = Some (now h + timeout h)%N.
Proof.
  repeat split; try reflexivity. intros h c k h' tid H. unfold new_task in H. inversion H; subst; clear H.
  eexists. split; [cbn [tasks]; apply in_or_app; right; left; reflexivity|]. split; reflexivity.
Qed.

(** 4. A response is counted only for the task its request id was issued for:
    every other task is untouched, and whatever the response makes the hub
    send goes to the client of that task. *)
Theorem no_cross_talk : forall nw tm es h os w r st h' os',
    run (init nw tm) es = (h, os) -> worker_response h w (Some r) st = (h', os') ->
    (forall t, In t (tasks h) -> t_id t <> tid_of r -> In t (tasks h')) /\
    (forall t', In t' (tasks h') -> t_id t' <> tid_of r -> In t' (tasks h)) /\
    (forall o c, In o os' -> out_client o = Some c ->
                 exists t0, In t0 (tasks h) /\ t_id t0 = tid_of r /\ t_client t0 = c).
Proof.
  intros nw tm es h os w r st h' os' Hr. apply no_cross_talk_lemma.
  apply (inv_wf _ _ _ (reach_inv _ _ _ _ _ Hr)).
Qed.

(** Late / duplicate responses: the in-flight table only ever refers to live
    tasks, so a response for a finished (or never issued) id changes nothing
    and reaches nobody. *)
Theorem in_flight_only_live_tasks : forall nw tm es h os r tid,
    run (init nw tm) es = (h, os) -> In (r, tid) (in_flight h) ->
    tid_of r = tid /\ exists t, In t (tasks h) /\ t_id t = tid.
Proof. exact purged_after_finish. Qed.

Theorem late_response_ignored : forall nw tm es h os w r st,
    run (init nw tm) es = (h, os) ->
    (forall t, In t (tasks h) -> t_id t <> tid_of r) ->
    worker_response h w (Some r) st = (h, []).
Proof.
  intros nw tm es h os w r st Hr. apply late_response_lemma.
  apply (inv_wf _ _ _ (reach_inv _ _ _ _ _ Hr)).
Qed.

(** A load-state whose file stops parsing after [n] records were scattered:
    the client is told failure, the task is cancelled — no task remains for that
    request and none of its request ids stays in flight, so whatever the workers
    answer later reaches nobody ([one_verdict] bounds the finals of every
    request, this one included). *)
Theorem cancel_leaves_no_trace : forall nw tm es h os c n h' os',
    run (init nw tm) es = (h, os) -> client_request h c (VLoad n true) = (h', os') ->
    (forall t, In t (tasks h') -> t_rq t <> next_rq h) /\
    (forall r tid, In (r, tid) (in_flight h') -> tid <> next_task h).
Proof. exact cancel_leaves_no_trace_lemma. Qed.

Example cancel_leaves_no_trace_nonvacuous :
  finals_of 0 (snd (run (init 2 1000) [EClient 0 (VLoad 2 true); EResp 0 (Some (0,0,1)) SOk; EResp 1 (Some (1,0,1)) SOk;
                                        EResp 0 (Some (0,0,2)) SOk; EResp 1 (Some (1,0,2)) SOk; ETick 5000])) = [SFailure].
Proof. vm_compute. reflexivity. Qed.

(** Hot upgrade of the main process.  The hub the new main process re-creates
    from [UpgradeData] satisfies every invariant of a reachable hub (all the
    theorems above hold for it again, with the id counters carried over so that
    no request id is ever issued twice) ... *)
Theorem handover_preserves_invariants : forall nw tm es h os,
    run (init nw tm) es = (h, os) -> Inv [] (handover h) [] /\ next_task (handover h) = next_task h.
Proof. intros. split; [eapply handover_inv; eapply reach_inv; eauto|reflexivity]. Qed.

(** Request ids are unique across the upgrade: the ids the new main process gives to the requests
    it scatters carry the task counter the old one handed over, which is above the task number of
    every request id the old main process still had in flight — so a worker's late answer to a
    request of the old main process is never taken for the answer to a new one ([late_response_ignored]
    applies to it), and the counter goes on from there. *)
Theorem ids_fresh_after_handover : forall nw tm es h os c v h' os' w r rq,
    run (init nw tm) es = (h, os) ->
    client_request (handover h) c v = (h', os') -> In (OSend w r rq) os' ->
    tid_of r = next_task h /\ next_task h < next_task h' /\
    (forall r0 tid0, In (r0, tid0) (in_flight h) -> tid_of r0 < tid_of r) /\
    (forall t, In t (tasks h) -> t_id t < tid_of r).
Proof.
  intros nw tm es h os c v h' os' w r rq Hr Hc Hin.
  destruct (client_request_sends _ _ _ _ _ _ _ _ Hc Hin) as [A B]. cbn [handover next_task] in A, B.
  pose proof (inv_wf _ _ _ (reach_inv _ _ _ _ _ Hr)) as W.
  repeat split; try assumption.
  - intros r0 tid0 H0. destruct (wf_live _ W _ _ H0) as [E [t [Ht Hid]]]. rewrite A, E, <- Hid. apply (wf_tid _ W _ Ht).
  - intros t Ht. rewrite A. apply (wf_tid _ W _ Ht).
Qed.

Example ids_fresh_after_handover_nonvacuous :
  let '(h, _) := run (init 2 1000) [EClient 0 VWorker; EClient 1 VQuery; EResp 0 (Some (0,0,0)) SOk] in
  next_task h = 2 /\
  finals_of 2 (snd (run (handover h) [EResp 1 (Some (1,0,0)) SOk; EClient 0 VWorker; EResp 1 (Some (1,0,0)) SOk;
                                       EResp 0 (Some (0,2,0)) SFailure; EResp 1 (Some (1,2,0)) SOk])) = [SFailure].
Proof. vm_compute. split; reflexivity. Qed.

(** ... but [UpgradeData] carries no task: a request that is pending when the
    main process is upgraded never gets a final answer from the new one,
    whatever the workers answer (open finding upgrade-drops-pending; the old
    main process closes that client's connection when it stops). *)
Theorem upgrade_drops_pending : forall nw tm es0 h os0 t es,
    run (init nw tm) es0 = (h, os0) -> In t (tasks h) ->
    finals_of (t_rq t) (snd (run (handover h) es)) = [].
Proof. exact handover_drops_pending_lemma. Qed.

Example upgrade_drops_pending_nonvacuous :
  let '(h, _) := run (init 2 1000) [EClient 0 VWorker; EResp 0 (Some (0,0,0)) SOk] in
  length (tasks h) = 1 /\
  snd (run (handover h) [EResp 1 (Some (1,0,0)) SOk; ETick 5000; EClient 1 VWorker]) =
  [ONotice 1 1; OSend 0 (0, 1, 0) 1; OSend 1 (1, 1, 0) 1].
Proof. vm_compute. split; reflexivity. Qed.

(** The halves the code does not give (open findings, kept visible). *)

(** query / status / metrics tasks answer OK although a failure was counted *)
Theorem query_ok_unsound_refuted :
  exists es, In (OFinal 0 0 SOk) (snd (run (init 1 1000) es)) /\
             In (EResp 0 (Some (0, 0, 0)) SFailure) es /\ ~ acked es (0, 0, 0).
Proof.
  exists [EClient 0 VQuery; EResp 0 (Some (0, 0, 0)) SFailure]. split; [|split].
  - vm_compute. right. right. left. reflexivity.
  - right. left. reflexivity.
  - intros [w [H|[H|[]]]]; discriminate.
Qed.

(** A worker whose channel closes leaves nothing in flight: every request it
    had not answered is counted as a failure at once, so no task — with or
    without deadline — keeps waiting for it. *)
Theorem no_orphans_after_close : forall nw tm es h os w h1 o1,
    run (init nw tm) es = (h, os) -> apply_event h (EWorkerClosed w) = (h1, o1) ->
    forall r tid, In (r, tid) (in_flight h1) -> fst (fst r) <> w.
Proof. exact no_orphans_after_close_lemma. Qed.

(** Non-vacuity: concrete reachable histories on which the hypotheses hold. *)
Example one_verdict_nonvacuous :
  finals_of 0 (snd (run (init 2 1000)
     [EClient 0 VWorker; EResp 0 (Some (0,0,0)) SOk; EResp 0 (Some (0,0,0)) SOk;
      EResp 1 (Some (1,0,0)) SOk; EResp 1 (Some (1,0,0)) SFailure])) = [SOk].
Proof. vm_compute. reflexivity. Qed.

Example no_orphans_after_close_nonvacuous :
  finals_of 0 (snd (run (init 2 1000) [EClient 0 (VLoad 2 false); EResp 0 (Some (0,0,1)) SOk; EResp 0 (Some (0,0,2)) SOk;
                                        EWorkerClosed 1])) = [SFailure].
Proof. vm_compute. reflexivity. Qed.

Example no_hang_nonvacuous :
  let '(h0, _) := run (init 2 1000) [EClient 0 VWorker] in
  exists t, In t (tasks h0) /\ t_deadline t = Some 1000%N /\
  let '(h, _) := run h0 [EResp 0 (Some (0,0,0)) SOk; EResp 1 (Some (1,0,0)) SProcessing] in
  finals_of 0 (snd (step h (ETick 1001))) = [SFailure].
Proof. vm_compute. eexists. split; [left; reflexivity|]. split; reflexivity. Qed.

Example ok_is_sound_nonvacuous :
  let '(h, os) := run (init 2 1000) [EClient 0 (VLoad 2 false); EResp 0 (Some (0,0,1)) SOk; EResp 1 (Some (1,0,1)) SOk;
                                      EResp 1 (Some (1,0,2)) SOk] in
  In (OFinal 0 0 SOk) (snd (step h (EResp 0 (Some (0,0,2)) SOk))) /\ length (filter (fun o => match o with OSend _ _ _ => true | _ => false end) os) = 4.
Proof. vm_compute. split; [left; reflexivity|reflexivity]. Qed.

Example no_cross_talk_nonvacuous :
  let '(h, _) := run (init 1 1000) [EClient 0 VWorker; EClient 1 VWorker] in
  length (tasks h) = 2 /\ snd (worker_response h 0 (Some (0,1,0)) SProcessing) = [ONotice 1 1].
Proof. vm_compute. split; reflexivity. Qed.
